package main

import (
	"fmt"
	"go/token"
	"go/types"
	"strings"

	"golang.org/x/tools/go/ssa"
)

func init() {
	register(&propInfo{
		ID:          "C19",
		Explanation: "Path and value-origin analysis of the auth package. The permission checks only compare permissions for equality, so these path facts are the whole argument: (R19.1) in the per-field wrapper built by PermissionedProxy every delegation to the implementation is dominated by the true outcome of HasPerm(ctx from the call's first argument, PermissionedProxy's default-permissions parameter, the field's perm tag), and the false outcome returns an error value without delegating; (R19.2) HasPerm searches exactly the set attached to the context when one is attached (comma-ok true) and the defaults only otherwise, returns true only under element == required permission and false otherwise, and reads the same context key WithPerm writes; (R19.3) the HTTP handler reaches Next either with the original context on the token-less path or with WithPerm(ctx, allow) where allow is the verifier's own result on the verified path, and every 401 path (missing Bearer prefix, verifier error) never reaches Next; the token is taken from the Authorization header and otherwise from the token form value with the Bearer prefix added. R19.1 also requires every reflect.Value.Set in the proxy constructor to install a reflect.MakeFunc wrapper. (R19.4) the permission sets given to the proxy constructor are only read. (R19.5) every request read that can reach the verifier's token reads the Authorization header or the token form value.",
		NotDecided:  "What a user-supplied Verify function returns; reflection details of field/method matching by name in PermissionedProxy (MethodByName) beyond the tag validation; HTTP semantics of FormValue.",
		Assumptions: []string{"PermissionedProxy's second parameter is the default permission set and its first the valid set (exported signature)", "HasPerm, WithPerm, PermissionedProxy and Handler.ServeHTTP are resolved by their exported names (public API)"},
		Run:         runC19,
	})
}

// edgeConds: conditions known to hold when control flows along pred -> blk.
func edgeConds(pred, blk *ssa.BasicBlock) []condFact {
	out := impliedConds(pred)
	if iff, ok := pred.Instrs[len(pred.Instrs)-1].(*ssa.If); ok && pred.Succs[0] != pred.Succs[1] {
		if pred.Succs[0] == blk {
			out = append(out, condFact{iff.Cond, true})
		} else if pred.Succs[1] == blk {
			out = append(out, condFact{iff.Cond, false})
		}
	}
	return expandConds(out)
}

func hasCond(cs []condFact, v ssa.Value, want bool) bool {
	for _, c := range cs {
		if c.Cond == v && c.True == want {
			return true
		}
	}
	return false
}

func (c *Ctx) authFn(name string) *ssa.Function {
	if c.P.Auth == nil {
		return nil
	}
	return c.P.Auth.Func(name)
}

func runC19(c *Ctx) {
	c.rule("R19.1", "every delegation in the permissioned wrapper is dominated by HasPerm(ctx of the call, default permissions, required tag) being true; the false outcome returns an error without delegating")
	c.rule("R19.2", "HasPerm searches the attached set iff one is attached, else the defaults; true only under element == required; same context key as WithPerm")
	c.rule("R19.5", "the token comes from the Authorization header or the token form value and from nowhere else: a request without either is passed on token-less, never rejected or authenticated because of some other header")
	c.tokenSources("R19.5")
	c.rule("R19.3", "auth HTTP handler: Next is reached only token-less with the original context or with WithPerm(ctx, verifier result); 401 paths never reach Next; missing prefix and verifier error lead to 401")
	if !c.need("R19.1", "auth package", c.P.Auth != nil) {
		return
	}
	hasPerm := c.authFn("HasPerm")
	withPerm := c.authFn("WithPerm")
	proxy := c.authFn("PermissionedProxy")
	if !c.need("R19.1", "auth.HasPerm / auth.PermissionedProxy", hasPerm != nil && proxy != nil) || !c.need("R19.2", "auth.WithPerm", withPerm != nil) {
		return
	}
	c.r191(proxy, hasPerm)
	c.rule("R19.4", "the permission sets handed to the proxy constructor are only read (sorting the valid set in place rewrites the defaults that alias it)")
	c.permSetsReadOnly("R19.4", proxy)
	c.r192(hasPerm, withPerm)
	c.r193(withPerm)
}

func (c *Ctx) r191(proxy, hasPerm *ssa.Function) {
	rule := "R19.1"
	// wrapper closures: functions passed to reflect.MakeFunc inside PermissionedProxy
	var wrappers []*ssa.Function
	for _, fn := range c.region(proxy) {
		allInstrsRaw(fn, func(in ssa.Instruction) {
			ci, ok := in.(ssa.CallInstruction)
			if ok && calleeName(ci) == "reflect.MakeFunc" {
				for _, w := range c.funcsOf(ci.Common().Args[1]) {
					dup := false
					for _, x := range wrappers {
						if x == w {
							dup = true
						}
					}
					if !dup {
						wrappers = append(wrappers, w)
					}
				}
			}
		})
	}
	if len(wrappers) == 0 {
		c.und(rule, "PermissionedProxy: wrapper", c.P.pos(proxy.Pos()), "no function literal given to reflect.MakeFunc found")
		return
	}
	// whatever is installed into the proxy struct is such a wrapper: a method wired directly to the
	// implementation (a "fast path" for default-permitted methods) is never checked against what the
	// caller's token actually carries
	for _, fn := range c.region(proxy) {
		allInstrsRaw(fn, func(in ssa.Instruction) {
			ci, ok := in.(ssa.CallInstruction)
			if !ok || calleeName(ci) != "(reflect.Value).Set" {
				return
			}
			construct := fmt.Sprintf("%s: function installed into the proxy", fname(fn))
			good := c.allOrigins(ci.Common().Args[1], func(a apath) bool {
				call, ok := a.Root.(*ssa.Call)
				return ok && len(a.Fields) == 0 && calleeName(call) == "reflect.MakeFunc"
			})
			c.check(good, rule, construct, c.ipos(in), "a reflect.MakeFunc wrapper", "a proxy method is wired to something other than the permission-checking wrapper (e.g. straight to the implementation when the defaults allow it): a caller whose attached permission set lacks the required permission still runs it — an attached set must be used exactly as attached, even when it grants less than the defaults")
		})
	}
	for _, w := range wrappers {
		ndel := 0
		allInstrs(w, func(in ssa.Instruction) {
			ci, ok := in.(ssa.CallInstruction)
			if !ok {
				return
			}
			nm := calleeName(ci)
			if nm != "(reflect.Value).Call" && nm != "(reflect.Value).CallSlice" {
				return
			}
			ndel++
			construct := fmt.Sprintf("%s: delegation to the implementation", fname(w))
			// find a HasPerm call whose result is known true here
			var guard *ssa.Call
			for _, cf := range expandConds(impliedConds(in.Block())) {
				if call, ok := cf.Cond.(*ssa.Call); ok && staticCallee(call) == hasPerm && cf.True {
					guard = call
				}
			}
			if guard == nil {
				c.bad(rule, construct, c.ipos(in), "the implementation can be invoked on a path where HasPerm is not known to have returned true")
				return
			}
			args := guard.Common().Args
			okAll := true
			// arg0: context from the wrapper's args[0]
			if !c.fromWrapperArg0(args[0], w) {
				okAll = false
				c.bad(rule, construct, c.ipos(guard), "the context given to HasPerm is not the one passed as the call's first argument")
			}
			// arg1: default permissions = PermissionedProxy parameter #1
			heapAll := func(v ssa.Value, pred func(apath) bool) bool {
				os := c.originsHeap(v)
				if len(os) == 0 {
					return false
				}
				for _, o := range os {
					if !pred(o) {
						return false
					}
				}
				return true
			}
			defaultsOK := len(proxy.Params) >= 2 && (c.isParamOrForwarded(args[1], proxy.Params[1]) ||
				// the wrapper is a method of a small struct that holds what the closure used to capture
				heapAll(args[1], func(a apath) bool { return len(a.Fields) == 0 && a.Root == ssa.Value(proxy.Params[1]) }))
			if !defaultsOK {
				okAll = false
				c.bad(rule, construct, c.ipos(guard), "the permission set given to HasPerm as defaults is not PermissionedProxy's default-permissions parameter")
			}
			// arg2: the field's perm tag
			if !c.fromPermTag(args[2]) && !heapAll(args[2], func(a apath) bool {
				if len(a.Fields) != 0 {
					return false
				}
				if v, ok := a.Root.(ssa.Value); ok {
					return c.fromPermTag(v)
				}
				return false
			}) {
				okAll = false
				c.bad(rule, construct, c.ipos(guard), "the required permission given to HasPerm does not originate from the field's `perm` tag")
			}
			// same args delegated as received
			if okAll {
				c.ok(rule, construct, c.ipos(in), "dominated by HasPerm(args[0] ctx, default perms, perm tag) == true")
			}
		})
		construct := fmt.Sprintf("%s: denial path", fname(w))
		if ndel == 0 {
			c.bad(rule, construct, c.P.pos(w.Pos()), "the wrapper never delegates to the implementation")
			continue
		}
		// denial: from the false edge of HasPerm no delegation reachable, and an error value is returned
		allInstrs(w, func(in ssa.Instruction) {
			iff, ok := in.(*ssa.If)
			if !ok {
				return
			}
			call, ok := iff.Cond.(*ssa.Call)
			if !ok || staticCallee(call) != hasPerm {
				return
			}
			deny := iff.Block().Succs[1]
			isDeleg := func(x ssa.Instruction) bool {
				ci, ok := x.(ssa.CallInstruction)
				return ok && (calleeName(ci) == "(reflect.Value).Call" || calleeName(ci) == "(reflect.Value).CallSlice")
			}
			if wv := reachFromBlock(deny, isDeleg, nil); wv != nil {
				c.bad(rule, construct, c.ipos(wv), "the implementation is reachable after HasPerm returned false")
				return
			}
			// an error is constructed on the denial path
			mkErr := func(x ssa.Instruction) bool {
				ci, ok := x.(ssa.CallInstruction)
				if !ok {
					return false
				}
				n := calleeName(ci)
				return n == "golang.org/x/xerrors.Errorf" || n == "golang.org/x/xerrors.New" || n == "fmt.Errorf" || n == "errors.New"
			}
			if ret := reachFromBlock(deny, isReturn, mkErr); ret != nil {
				c.bad(rule, construct, c.ipos(ret), "a denial path returns without constructing a permission error")
				return
			}
			c.ok(rule, construct, c.ipos(iff), "false outcome builds an error and returns; delegation unreachable")
		})
	}
}

func stripLoad(v ssa.Value) ssa.Value {
	if u, ok := v.(*ssa.UnOp); ok && u.Op == token.MUL {
		return u.X
	}
	return v
}

// isParamValue: v denotes parameter prm (directly, or the local it was spilled to).
func (c *Ctx) isParamValue(v ssa.Value, prm *ssa.Parameter) bool {
	if v == ssa.Value(prm) {
		return true
	}
	if al, ok := v.(*ssa.Alloc); ok {
		n := 0
		isP := false
		for _, ref := range *al.Referrers() {
			if st, ok := ref.(*ssa.Store); ok && st.Addr == al {
				n++
				isP = st.Val == ssa.Value(prm)
			}
		}
		return n == 1 && isP
	}
	return false
}

// fromWrapperArg0: v == args[0].Interface().(context.Context) of wrapper w.
func (c *Ctx) fromWrapperArg0(v ssa.Value, w *ssa.Function) bool {
	for i := 0; i < 8; i++ {
		switch x := v.(type) {
		case *ssa.TypeAssert:
			v = x.X
		case *ssa.Extract:
			v = x.Tuple
		case *ssa.Call:
			if calleeName(x) == "(reflect.Value).Interface" {
				v = x.Common().Args[0]
				continue
			}
			return false
		case *ssa.UnOp:
			if x.Op == token.MUL {
				v = x.X
				continue
			}
			return false
		case *ssa.IndexAddr:
			k, ok := constInt(x.Index)
			if !ok || k != 0 {
				return false
			}
			// the wrapper's argument list: its (last) parameter of type []reflect.Value — a method used as
			// the wrapper has its receiver first
			for _, prm := range w.Params {
				if sl, ok := prm.Type().Underlying().(*types.Slice); ok && isNamed(sl.Elem(), "reflect", "Value") && x.X == ssa.Value(prm) {
					return true
				}
			}
			return false
		default:
			return false
		}
	}
	return false
}

// fromPermTag: on every origin v is the result of field.Tag.Get("perm") / Lookup("perm").
func (c *Ctx) fromPermTag(v ssa.Value) bool {
	return c.allOrigins(v, func(a apath) bool {
		if len(a.Fields) != 0 {
			return false
		}
		root := a.Root
		if ex, ok := root.(*ssa.Extract); ok {
			root = ex.Tuple
		}
		call, ok := root.(*ssa.Call)
		if !ok {
			return false
		}
		n := calleeName(call)
		if n != "(reflect.StructTag).Get" && n != "(reflect.StructTag).Lookup" {
			return false
		}
		s, ok := constString(call.Common().Args[1])
		return ok && s == "perm"
	})
}

func (c *Ctx) r192(hasPerm, withPerm *ssa.Function) {
	rule := "R19.2"
	construct := "HasPerm: searched set"
	// the context lookup and its comma-ok assertion
	var ta *ssa.TypeAssert
	var keyLoad ssa.Value
	allInstrs(hasPerm, func(in ssa.Instruction) {
		if t, ok := in.(*ssa.TypeAssert); ok && t.CommaOk {
			if call, ok := t.X.(*ssa.Call); ok && call.Common().IsInvoke() && call.Common().Method.Name() == "Value" {
				ta = t
				keyLoad = stripConv(call.Common().Args[0])
			}
		}
	})
	if ta == nil {
		c.und(rule, construct, c.P.pos(hasPerm.Pos()), "no comma-ok type assertion on ctx.Value(...) found")
		return
	}
	var val, okv ssa.Value
	for _, ref := range *ta.Referrers() {
		if ex, ok := ref.(*ssa.Extract); ok {
			if ex.Index == 0 {
				val = ex
			} else {
				okv = ex
			}
		}
	}
	// same key as WithPerm
	var wkey ssa.Value
	allInstrs(withPerm, func(in ssa.Instruction) {
		if ci, ok := in.(*ssa.Call); ok && calleeName(ci) == "context.WithValue" {
			wkey = stripConv(ci.Common().Args[1])
		}
	})
	sameKey := false
	if wkey != nil && keyLoad != nil {
		g1, ok1 := stripLoad(wkey).(*ssa.Global)
		g2, ok2 := stripLoad(keyLoad).(*ssa.Global)
		sameKey = ok1 && ok2 && g1 == g2
	}
	c.check(sameKey, rule, "HasPerm/WithPerm: context key", c.P.pos(hasPerm.Pos()), "both use the same package-level key", "HasPerm does not read the context key that WithPerm writes")
	// WithPerm stores its perms parameter
	storesParam := false
	allInstrs(withPerm, func(in ssa.Instruction) {
		if ci, ok := in.(*ssa.Call); ok && calleeName(ci) == "context.WithValue" && len(withPerm.Params) == 2 {
			if stripConv(ci.Common().Args[2]) == ssa.Value(withPerm.Params[1]) && ci.Common().Args[0] == ssa.Value(withPerm.Params[0]) {
				storesParam = true
			}
		}
	})
	c.check(storesParam, rule, "WithPerm: attached value", c.P.pos(withPerm.Pos()), "attaches exactly its perms argument to a child of its ctx argument", "WithPerm does not attach exactly the given permission slice to the given context")
	// … on every path: a set that is attached must be found attached, even when it is empty
	// (returning the context unchanged for an empty set hands the caller the defaults)
	allInstrs(withPerm, func(in ssa.Instruction) {
		rt, ok := in.(*ssa.Return)
		if !ok || len(rt.Results) != 1 {
			return
		}
		good := c.allOrigins(blockLocalValue(rt.Results[0]), func(a apath) bool {
			call, ok := a.Root.(*ssa.Call)
			return ok && len(a.Fields) == 0 && calleeName(call) == "context.WithValue"
		})
		c.check(good, rule, "WithPerm: returned context", c.ipos(rt), "always the context carrying the set", "WithPerm can return a context that does not carry the given set (e.g. unchanged when the set is empty): HasPerm then falls back to the defaults, so a caller verified with no permissions gets the default ones")
	})

	// the searched slice: every `return true` must be under elem == perm with elem from slice S;
	// S must be phi(attached [ok true], defaults [ok false])
	permParam := hasPerm.Params[len(hasPerm.Params)-1]
	defParam := hasPerm.Params[1]
	grants := c.grantSites(rule, hasPerm, permParam, 0)
	for _, g := range grants {
		c.checkSearched(rule, construct, g.searched, val, okv, defParam, g.at)
	}
	if len(grants) == 0 {
		c.bad(rule, "HasPerm: return true", c.P.pos(hasPerm.Pos()), "HasPerm can never grant")
	}
}

type grantSite struct {
	searched ssa.Value // the set (a value of the analysed function) whose element equals the required permission
	at       ssa.Instruction
}

// grantSites: the places where fn can return true, each with the set that is searched there.
// true is returned only under element == perm, or by a membership helper (slices.Contains, or
// a tree function with the same discipline) applied to perm.
func (c *Ctx) grantSites(rule string, fn *ssa.Function, perm *ssa.Parameter, depth int) []grantSite {
	var out []grantSite
	label := fname(fn) + ": return true"
	allInstrs(fn, func(in ssa.Instruction) {
		rt, ok := in.(*ssa.Return)
		if !ok || len(rt.Results) != 1 {
			return
		}
		res := rt.Results[0]
		if k, ok := res.(*ssa.Const); ok && k.Value != nil {
			if k.Value.String() != "true" {
				return
			}
			var searched ssa.Value
			for _, cf := range expandConds(impliedConds(rt.Block())) {
				bo, ok := cf.Cond.(*ssa.BinOp)
				if !ok || bo.Op != token.EQL || !cf.True {
					continue
				}
				var elem ssa.Value
				if bo.Y == ssa.Value(perm) {
					elem = bo.X
				} else if bo.X == ssa.Value(perm) {
					elem = bo.Y
				} else {
					continue
				}
				if ld, ok := elem.(*ssa.UnOp); ok && ld.Op == token.MUL {
					if ia, ok := ld.X.(*ssa.IndexAddr); ok {
						searched = ia.X
					}
				}
			}
			if searched == nil {
				c.bad(rule, label, c.ipos(rt), "true is returned on a path where no element of the caller's set is known to equal the required permission")
				out = append(out, grantSite{nil, rt})
				return
			}
			c.ok(rule, label, c.ipos(rt), "only under element == required permission")
			out = append(out, grantSite{searched, rt})
			return
		}
		if call, ok := res.(*ssa.Call); ok {
			n := calleeName(call)
			if n == "slices.Contains" || n == "golang.org/x/exp/slices.Contains" {
				if call.Common().Args[1] != ssa.Value(perm) {
					c.bad(rule, label, c.ipos(rt), "membership is tested for something other than the required permission")
					out = append(out, grantSite{nil, rt})
					return
				}
				c.ok(rule, label, c.ipos(rt), "slices.Contains(set, required)")
				out = append(out, grantSite{call.Common().Args[0], rt})
				return
			}
			if g := c.P.unbound(staticCallee(call)); g != nil && c.P.allFns[g] && len(g.Blocks) > 0 && depth < 3 {
				// membership helper: perm must be forwarded; the helper's searched set must be one of its parameters
				pj := -1
				for j, a := range call.Common().Args {
					if a == ssa.Value(perm) && j < len(g.Params) {
						pj = j
					}
				}
				if pj < 0 {
					c.bad(rule, label, c.ipos(rt), "membership is tested for something other than the required permission")
					out = append(out, grantSite{nil, rt})
					return
				}
				for _, gs := range c.grantSites(rule, g, g.Params[pj], depth+1) {
					if gs.searched == nil {
						out = append(out, grantSite{nil, rt})
						continue
					}
					mapped := ssa.Value(nil)
					for j, q := range g.Params {
						if gs.searched == ssa.Value(q) && j < len(call.Common().Args) {
							mapped = call.Common().Args[j]
						}
					}
					if mapped == nil {
						c.bad(rule, label, c.ipos(gs.at), "the membership helper searches a set that is not the one it was given")
						out = append(out, grantSite{nil, rt})
						continue
					}
					out = append(out, grantSite{mapped, rt})
				}
				return
			}
		}
		c.und(rule, fname(fn)+": return", c.ipos(rt), "unrecognised return expression")
	})
	return out
}

func (c *Ctx) checkSearched(rule, construct string, searched, attached, okv ssa.Value, defParam *ssa.Parameter, at ssa.Instruction) {
	if searched == nil {
		return // already reported
	}
	phi, ok := searched.(*ssa.Phi)
	if !ok {
		c.bad(rule, construct, c.ipos(at), "the searched set is not 'attached set if present, else defaults'")
		return
	}
	sawAtt, sawDef := false, false
	for i, e := range phi.Edges {
		pred := phi.Block().Preds[i]
		ec := edgeConds(pred, phi.Block())
		switch {
		case e == attached:
			sawAtt = true
			if !hasCond(ec, okv, true) {
				c.bad(rule, construct, c.ipos(phi), "the attached set is used on a path where the context carried none")
				return
			}
		case e == ssa.Value(defParam):
			sawDef = true
			if !hasCond(ec, okv, false) {
				c.bad(rule, construct, c.ipos(phi), "the defaults replace the caller's attached permission set on a path where a set was attached (e.g. when it is empty)")
				return
			}
		default:
			c.bad(rule, construct, c.ipos(phi), "the searched set has a third origin besides the attached set and the defaults")
			return
		}
	}
	c.check(sawAtt && sawDef, rule, construct, c.ipos(phi), "attached set iff comma-ok true, defaults iff false", "the searched set is not 'attached set if present, else defaults'")
}

func (c *Ctx) r193(withPerm *ssa.Function) {
	rule := "R19.3"
	p := c.P
	var serve *ssa.Function
	if tn, ok := p.Auth.Pkg.Scope().Lookup("Handler").(*types.TypeName); ok {
		serve = p.SSA.LookupMethod(types.NewPointer(tn.Type()), p.Auth.Pkg, "ServeHTTP")
	}
	if !c.need(rule, "auth.(*Handler).ServeHTTP", serve != nil) {
		return
	}
	st := structOf(serve.Signature.Recv().Type())
	var fVerify, fNext *types.Var
	for i := 0; i < st.NumFields(); i++ {
		if sig, ok := st.Field(i).Type().Underlying().(*types.Signature); ok {
			if sig.Results().Len() == 2 {
				fVerify = st.Field(i)
			} else if sig.Results().Len() == 0 && sig.Params().Len() == 2 {
				fNext = st.Field(i)
			}
		}
	}
	if !c.need(rule, "Handler.Verify / Handler.Next fields", fVerify != nil && fNext != nil) {
		return
	}
	isCallOfField := func(in ssa.Instruction, f *types.Var) (*ssa.Call, bool) {
		call, ok := in.(*ssa.Call)
		if !ok || call.Common().IsInvoke() {
			return nil, false
		}
		if _, ok := loadsField(call.Common().Value, f); ok || c.fieldVal(call.Common().Value, f) {
			return call, true
		}
		return nil, false
	}
	var nextCalls, verifyCalls []*ssa.Call
	var h401 []ssa.Instruction
	reg := c.region(serve)
	regInstrs := func(f func(ssa.Instruction)) {
		for _, g := range reg {
			allInstrsRaw(g, f)
		}
	}
	regInstrs(func(in ssa.Instruction) {
		if call, ok := isCallOfField(in, fNext); ok {
			nextCalls = append(nextCalls, call)
		}
		if call, ok := isCallOfField(in, fVerify); ok {
			verifyCalls = append(verifyCalls, call)
		}
		if ci, ok := in.(*ssa.Call); ok && ci.Common().IsInvoke() && ci.Common().Method.Name() == "WriteHeader" {
			if k, ok := constInt(ci.Common().Args[0]); ok && k == 401 {
				h401 = append(h401, in)
			}
		}
	})
	if len(nextCalls) == 0 || len(verifyCalls) != 1 {
		c.und(rule, "(*Handler).ServeHTTP: shape", p.pos(serve.Pos()), fmt.Sprintf("expected one Verify call and at least one Next call, found %d/%d", len(verifyCalls), len(nextCalls)))
		return
	}
	verify := verifyCalls[0]
	var allow, verr ssa.Value
	for _, ref := range *verify.Referrers() {
		if ex, ok := ref.(*ssa.Extract); ok {
			if ex.Index == 0 {
				allow = ex
			} else {
				verr = ex
			}
		}
	}
	isNext := func(in ssa.Instruction) bool { _, ok := isCallOfField(in, fNext); return ok }
	// 401 => Next unreachable
	for _, h := range h401 {
		construct := "(*Handler).ServeHTTP: 401 path"
		if w := reachFromUp(h, isNext, nil); w != nil {
			c.bad(rule, construct, c.ipos(w), "the next handler is invoked after a 401 was written")
		} else {
			c.ok(rule, construct, c.ipos(h), "Next unreachable after 401")
		}
	}
	if len(h401) == 0 {
		c.bad(rule, "(*Handler).ServeHTTP: 401 path", p.pos(serve.Pos()), "no 401 reply exists any more")
	}
	// verifier error => 401 and no Next
	{
		construct := "(*Handler).ServeHTTP: verifier error"
		var errBranch *ssa.BasicBlock
		if verr != nil {
			for _, ref := range *verr.Referrers() {
				if bo, ok := ref.(*ssa.BinOp); ok && (bo.Op == token.NEQ || bo.Op == token.EQL) {
					for _, r2 := range *bo.Referrers() {
						if iff, ok := r2.(*ssa.If); ok {
							if bo.Op == token.NEQ {
								errBranch = iff.Block().Succs[0]
							} else {
								errBranch = iff.Block().Succs[1]
							}
						}
					}
				}
			}
		}
		if errBranch == nil {
			c.bad(rule, construct, c.ipos(verify), "the verifier's error is not tested")
		} else {
			is401 := func(in ssa.Instruction) bool {
				for _, h := range h401 {
					if h == in {
						return true
					}
				}
				return false
			}
			if w := reachFromBlockUp(errBranch, isNext, nil); w != nil {
				c.bad(rule, construct, c.ipos(w), "a rejected token still reaches the next handler")
			} else if ret := reachFromBlockUp(errBranch, isEnd, is401); ret != nil {
				c.bad(rule, construct, c.ipos(ret), "a rejected token is not answered with 401")
			} else {
				c.ok(rule, construct, c.ipos(verify), "error branch writes 401 and returns")
			}
		}
	}
	// malformed prefix => 401 and no Next
	{
		construct := "(*Handler).ServeHTTP: missing Bearer prefix"
		found := false
		regInstrs(func(in ssa.Instruction) {
			iff, ok := in.(*ssa.If)
			if !ok {
				return
			}
			// strings.HasPrefix(token, "Bearer ") or the ok result of strings.CutPrefix(token, "Bearer ")
			condv := iff.Cond
			negated := false
			if u, ok := condv.(*ssa.UnOp); ok && u.Op == token.NOT {
				condv, negated = u.X, true
			}
			var call *ssa.Call
			if cl, ok := condv.(*ssa.Call); ok && calleeName(cl) == "strings.HasPrefix" {
				call = cl
			} else if ex, ok := condv.(*ssa.Extract); ok && ex.Index == 1 {
				if cl, ok := ex.Tuple.(*ssa.Call); ok && calleeName(cl) == "strings.CutPrefix" {
					call = cl
				}
			}
			if call == nil {
				return
			}
			if s, ok := constPrefixArg(call.Common().Args[1]); !ok || s != "Bearer " {
				return
			}
			found = true
			bad := iff.Block().Succs[1]
			if negated {
				bad = iff.Block().Succs[0]
			}
			is401 := func(x ssa.Instruction) bool {
				for _, h := range h401 {
					if h == x {
						return true
					}
				}
				return false
			}
			if w := reachFromBlockUp(bad, isNext, nil); w != nil {
				c.bad(rule, construct, c.ipos(w), "a token without the Bearer prefix reaches the next handler")
			} else if w := reachFromBlockUp(bad, func(x ssa.Instruction) bool { return x == ssa.Instruction(verify) }, nil); w != nil {
				c.bad(rule, construct, c.ipos(w), "a token without the Bearer prefix is handed to the verifier")
			} else if ret := reachFromBlockUp(bad, isEnd, is401); ret != nil {
				c.bad(rule, construct, c.ipos(ret), "a malformed token is not answered with 401")
			} else {
				c.ok(rule, construct, c.ipos(iff), "writes 401 and returns")
			}
		})
		if !found {
			c.bad(rule, construct, p.pos(serve.Pos()), "the Bearer prefix is no longer required")
		}
	}
	// the context handed to Next
	var ctx0s []ssa.Value
	regInstrs(func(in ssa.Instruction) {
		if ci, ok := in.(*ssa.Call); ok && calleeName(ci) == "(*net/http.Request).Context" {
			ctx0s = append(ctx0s, ci)
		}
	})
	isCtx0 := func(v ssa.Value) bool {
		for _, x := range ctx0s {
			if x == v {
				return true
			}
		}
		return false
	}
	// ctxSource: one way the context value handed to Next can have been produced, with the
	// place (phi edge or return of a helper) at which that alternative was chosen
	type ctxSource struct {
		val  ssa.Value
		pred *ssa.BasicBlock // phi edge taken
		ret  *ssa.Return     // helper return taken
	}
	var sources func(v ssa.Value, pred *ssa.BasicBlock, ret *ssa.Return, depth int, out *[]ctxSource)
	sources = func(v ssa.Value, pred *ssa.BasicBlock, ret *ssa.Return, depth int, out *[]ctxSource) {
		if depth > 8 {
			*out = append(*out, ctxSource{v, pred, ret})
			return
		}
		switch x := v.(type) {
		case *ssa.Phi:
			for i, e := range x.Edges {
				sources(e, x.Block().Preds[i], ret, depth+1, out)
			}
			return
		case *ssa.UnOp:
			if x.Op == token.MUL {
				if al, ok := x.X.(*ssa.Alloc); ok {
					if sts := reachingStores(al, x); len(sts) > 0 {
						for _, st := range sts {
							sources(st.Val, st.Block(), ret, depth+1, out)
						}
						return
					}
				}
			}
		case *ssa.Extract:
			if call, ok := x.Tuple.(*ssa.Call); ok {
				if g := p.unbound(staticCallee(call)); g != nil && p.allFns[g] && len(g.Blocks) > 0 && g != withPerm {
					allInstrsRaw(g, func(in ssa.Instruction) {
						if rt, ok := in.(*ssa.Return); ok && x.Index < len(rt.Results) {
							sources(blockLocalValue(rt.Results[x.Index]), nil, rt, depth+1, out)
						}
					})
					return
				}
			}
		case *ssa.Call:
			if g := p.unbound(staticCallee(x)); g != nil && p.allFns[g] && len(g.Blocks) > 0 && g != withPerm {
				allInstrsRaw(g, func(in ssa.Instruction) {
					if rt, ok := in.(*ssa.Return); ok && len(rt.Results) == 1 {
						sources(blockLocalValue(rt.Results[0]), nil, rt, depth+1, out)
					}
				})
				return
			}
		}
		*out = append(*out, ctxSource{v, pred, ret})
	}
	afterVerify := func(src ctxSource) bool {
		if src.ret != nil {
			return reachFromUp(verify, func(x ssa.Instruction) bool { return x == ssa.Instruction(src.ret) }, nil) != nil || src.ret.Block() == verify.Block() && instrIndex(src.ret) > instrIndex(verify)
		}
		if src.pred != nil {
			return reachesBlock(verify, src.pred)
		}
		return false
	}
	sawVerifiedAny := false
	for _, nc := range nextCalls {
		nc := nc
		construct := "(*Handler).ServeHTTP: context handed to Next"
		if len(nc.Common().Args) != 2 {
			c.und(rule, construct, c.ipos(nc), "unexpected Next call shape")
			continue
		}
		req := nc.Common().Args[1]
		wc, ok := req.(*ssa.Call)
		if !ok || calleeName(wc) != "(*net/http.Request).WithContext" {
			// plain r: allowed only if no verification happened on this path => must not be reachable from verify
			if reachFromUp(verify, func(x ssa.Instruction) bool { return x == ssa.Instruction(nc) }, nil) != nil {
				c.bad(rule, construct, c.ipos(nc), "after verification the request is passed on without the permissions attached")
			} else {
				c.ok(rule, construct, c.ipos(nc), "token-less path passes the request unchanged")
			}
			continue
		}
		var srcs []ctxSource
		sources(wc.Common().Args[1], nil, nil, 0, &srcs)
		okAll := true
		sawVerified := false
		for _, src := range srcs {
			e := src.val
			switch {
			case isCtx0(e):
				// original context: this alternative must not be chosen after a successful verification
				direct := src.pred == nil && src.ret == nil && reachFromUp(verify, func(x ssa.Instruction) bool { return x == ssa.Instruction(nc) }, nil) != nil
				if afterVerify(src) || direct {
					okAll = false
					c.bad(rule, construct, c.ipos(nc), "a verified request is passed on with the original context (permissions not attached)")
				}
			case isNilConst(e) && src.ret != nil:
				// a helper's "no context" result: acceptable only if Next is not reached with it
				s2 := newIPSearch(func(x ssa.Instruction) bool { return x == ssa.Instruction(nc) }, nil)
				s2.up = true
				if s2.scan(src.ret.Block(), instrIndex(src.ret), nil) {
					okAll = false
					c.bad(rule, construct, c.ipos(src.ret), "the next handler can be reached with no context at all")
				}
			default:
				call, ok := e.(*ssa.Call)
				if !ok || p.unbound(staticCallee(call)) != withPerm {
					okAll = false
					c.bad(rule, construct, c.ipos(nc), "the context handed on is neither the request's own nor WithPerm(...)")
					continue
				}
				sawVerified = true
				if !c.allOrigins(call.Common().Args[1], func(a apath) bool { return a.Root == allow && len(a.Fields) == 0 }) {
					okAll = false
					c.bad(rule, construct, c.ipos(call), "the attached permissions are not exactly what the verifier returned")
				}
				if !c.allOrigins(call.Common().Args[0], func(a apath) bool { return isCtx0(a.Root) && len(a.Fields) == 0 }) {
					okAll = false
					c.bad(rule, construct, c.ipos(call), "permissions are attached to a context other than the request's")
				}
				if verr == nil || !c.knownNil(call.Block(), verr) {
					okAll = false
					c.bad(rule, construct, c.ipos(call), "permissions are attached on a path where the verifier's error is not known to be nil")
				}
			}
		}
		if sawVerified {
			sawVerifiedAny = true
		}
		if okAll {
			c.ok(rule, construct, c.ipos(nc), "original ctx on the token-less path, WithPerm(ctx, verifier result) under err == nil otherwise")
		}
	}
	if !sawVerifiedAny {
		c.bad(rule, "(*Handler).ServeHTTP: context handed to Next", p.pos(serve.Pos()), "the verified path does not attach the verifier's permissions")
	}
	// token sources: Authorization header, else token form value with Bearer prefix added
	{
		construct := "(*Handler).ServeHTTP: token sources"
		hdr, form := false, false
		regInstrs(func(in ssa.Instruction) {
			ci, ok := in.(*ssa.Call)
			if !ok {
				return
			}
			switch calleeName(ci) {
			case "(net/http.Header).Get":
				if s, ok := constString(ci.Common().Args[1]); ok && s == "Authorization" {
					hdr = true
				}
			case "(*net/http.Request).FormValue":
				if s, ok := constString(ci.Common().Args[1]); ok && s == "token" {
					form = true
				}
			}
		})
		c.check(hdr && form, rule, construct, p.pos(serve.Pos()), "Authorization header and token form value", "a documented token source (Authorization header / token query parameter) is no longer read")
		// the verifier receives the token with the prefix trimmed
		tok := verify.Common().Args[1]
		trimmed := c.allOrigins(tok, func(a apath) bool {
			if len(a.Fields) != 0 {
				return false
			}
			if tc, ok := a.Root.(*ssa.Call); ok && calleeName(tc) == "strings.TrimPrefix" {
				return true
			}
			if ex, ok := a.Root.(*ssa.Extract); ok && ex.Index == 0 {
				if tc, ok := ex.Tuple.(*ssa.Call); ok && calleeName(tc) == "strings.CutPrefix" {
					return true
				}
			}
			return false
		})
		c.check(trimmed, rule, "(*Handler).ServeHTTP: token given to the verifier", c.ipos(verify),
			"prefix-trimmed token", "the verifier does not receive the token with the Bearer prefix removed")
	}
}

// reachesBlock: can control flow from instruction `from` reach the end of block b?
func reachesBlock(from ssa.Instruction, b *ssa.BasicBlock) bool {
	if from.Block() == b {
		return true
	}
	return reachFrom(from, func(x ssa.Instruction) bool { return x.Block() == b }, nil) != nil
}

// constPrefixArg: a constant string argument, directly or as a package-level constant.
func constPrefixArg(v ssa.Value) (string, bool) { return constString(v) }

// permSetsReadOnly: R19.4. The permission slices handed to the proxy constructor belong to the caller
// and commonly share one backing array (defaults = all[:1]). The constructor only reads them: no store
// into an element, no sort / reverse / copy-into. Sorting the valid permissions in place (for a binary
// search) silently rewrites the defaults that alias them: a caller with nothing attached is then denied
// what the defaults granted and allowed what they did not.
func (c *Ctx) permSetsReadOnly(rule string, proxy *ssa.Function) {
	n := 0
	for _, prm := range proxy.Params {
		sl, ok := prm.Type().Underlying().(*types.Slice)
		if !ok {
			continue
		}
		if nt, ok := sl.Elem().(*types.Named); !ok || nt.Obj().Pkg() != proxy.Pkg.Pkg {
			continue
		}
		n++
		construct := fmt.Sprintf("%s: permission set %s is only read", fname(proxy), prm.Name())
		var bad ssa.Instruction
		// copies have a backing array of their own
		copies := map[ssa.Value]bool{}
		for _, g := range c.region(proxy) {
			allInstrsRaw(g, func(in ssa.Instruction) {
				ci, ok := in.(*ssa.Call)
				if !ok {
					return
				}
				if b, isB := ci.Common().Value.(*ssa.Builtin); isB && b.Name() == "append" {
					a0 := ci.Common().Args[0]
					if _, fresh := a0.(*ssa.MakeSlice); fresh || isNilConst(a0) {
						copies[ci] = true
					}
				}
				if nm := calleeName(ci); nm == "slices.Clone" {
					copies[ci] = true
				}
			})
		}
		isPrm := func(v ssa.Value) bool {
			seen := map[ssa.Value]bool{}
			for k := range copies {
				seen[k] = true
			}
			return c.dependsOn(v, func(x ssa.Value) bool { return x == ssa.Value(prm) }, 0, seen)
		}
		for _, g := range c.region(proxy) {
			allInstrsRaw(g, func(in ssa.Instruction) {
				switch x := in.(type) {
				case *ssa.Store:
					if ia, ok := x.Addr.(*ssa.IndexAddr); ok {
						if _, isSl := ia.X.Type().Underlying().(*types.Slice); isSl && isPrm(ia.X) {
							bad = in
						}
					}
				case ssa.CallInstruction:
					nm := calleeName(x)
					mutating := strings.HasPrefix(nm, "sort.") && nm != "sort.Search" && !strings.HasPrefix(nm, "sort.Search") && !strings.HasSuffix(nm, "AreSorted") && !strings.HasSuffix(nm, "IsSorted") ||
						strings.HasPrefix(nm, "slices.Sort") || nm == "slices.Reverse"
					if b, ok := x.Common().Value.(*ssa.Builtin); ok && b.Name() == "copy" {
						if isPrm(x.Common().Args[0]) {
							bad = in
						}
					}
					if mutating {
						for _, a := range x.Common().Args {
							if _, isFn := a.Type().Underlying().(*types.Signature); isFn {
								continue
							}
							if mi, isMI := a.(*ssa.MakeInterface); isMI {
								a = mi.X
							}
							if isPrm(blockLocalValue(a)) {
								bad = in
							}
						}
					}
				}
			})
		}
		if bad != nil {
			c.bad(rule, construct, c.ipos(bad), "the constructor writes into a permission slice it was given (sorts it in place, stores into it): the caller's valid and default sets usually share one backing array, so the defaults change under it — a caller with nothing attached is then checked against the wrong defaults")
		} else {
			c.ok(rule, construct, c.P.pos(proxy.Pos()), "never written, sorted or copied into")
		}
	}
	if n == 0 {
		c.und(rule, "permission set parameters", "-", "none found")
	}
}

// tokenSources: R19.5. In the auth handler every request-header / form / cookie read whose result can
// reach the verifier's token argument reads "Authorization" (header) or "token" (form value).
func (c *Ctx) tokenSources(rule string) {
	p := c.P
	if p.Auth == nil {
		c.und(rule, "auth package", "-", "not loaded")
		return
	}
	var serve *ssa.Function
	if tn, ok := p.Auth.Pkg.Scope().Lookup("Handler").(*types.TypeName); ok {
		serve = p.SSA.LookupMethod(types.NewPointer(tn.Type()), p.Auth.Pkg, "ServeHTTP")
	}
	if serve == nil {
		c.und(rule, "auth.(*Handler).ServeHTTP", "-", "not found")
		return
	}
	var verifyArgs []ssa.Value
	p.coneInstrs(serve, func(in ssa.Instruction) {
		call, ok := in.(*ssa.Call)
		if !ok || call.Common().IsInvoke() {
			return
		}
		if _, isStatic := call.Common().Value.(*ssa.Function); isStatic {
			return
		}
		sig, ok := call.Common().Value.Type().Underlying().(*types.Signature)
		if !ok || sig.Results().Len() != 2 {
			return
		}
		for _, a := range call.Common().Args {
			if isStringType(a.Type()) {
				verifyArgs = append(verifyArgs, a)
			}
		}
	})
	if len(verifyArgs) == 0 {
		c.und(rule, fname(serve)+": verifier call", p.pos(serve.Pos()), "not found")
		return
	}
	construct := fmt.Sprintf("%s: where the token is read from", fname(serve))
	var bad ssa.Instruction
	n := 0
	// everything the verifier's token is computed from: through locals, helpers' parameters and results
	// (origins) and through the operands of concatenations, slicings and library string functions
	src := map[ssa.Value]bool{}
	var back func(v ssa.Value, d int)
	back = func(v ssa.Value, d int) {
		if v == nil || d > 10 || src[v] {
			return
		}
		src[v] = true
		for _, o := range c.origins(v) {
			rt := o.Root
			if rt != v {
				src[rt] = true
			}
			switch x := rt.(type) {
			case *ssa.BinOp:
				back(x.X, d+1)
				back(x.Y, d+1)
			case *ssa.Slice:
				back(x.X, d+1)
			case *ssa.Phi:
				for _, e := range x.Edges {
					back(e, d+1)
				}
			case *ssa.Extract:
				back(x.Tuple, d+1)
			case *ssa.Call:
				if g := staticCallee(x); g == nil || !p.allFns[g] {
					for _, a := range x.Common().Args {
						if isStringType(a.Type()) {
							back(a, d+1)
						}
					}
				}
			}
		}
	}
	for _, va := range verifyArgs {
		back(va, 0)
	}
	p.coneInstrs(serve, func(in ssa.Instruction) {
		call, ok := in.(*ssa.Call)
		if !ok {
			return
		}
		want := ""
		switch calleeName(call) {
		case "(net/http.Header).Get", "(net/http.Header).Values":
			want = "Authorization"
		case "(*net/http.Request).FormValue", "(*net/http.Request).PostFormValue", "(net/url.Values).Get":
			want = "token"
		case "(*net/http.Request).Cookie":
			want = "\x00"
		default:
			return
		}
		flows := src[call]
		for _, va := range verifyArgs {
			if c.dependsOn(va, func(v ssa.Value) bool { return v == ssa.Value(call) }, 0, map[ssa.Value]bool{}) {
				flows = true
			}
		}
		if !flows {
			return
		}
		n++
		key := ""
		if args := call.Common().Args; len(args) > 0 {
			key, _ = constString(args[len(args)-1])
		}
		if key != want {
			bad = in
		}
	})
	if bad != nil {
		c.bad(rule, construct, c.ipos(bad), "a value read from another place of the request (another header, a cookie, another form field) can become the token: requests that carry no credentials in the documented places are rejected with 401 or authenticated instead of being passed on token-less")
	} else if n == 0 {
		c.und(rule, construct, p.pos(serve.Pos()), "no read of the request flows into the verifier's token")
	} else {
		c.ok(rule, construct, p.pos(serve.Pos()), "Authorization header and token form value only")
	}
}
