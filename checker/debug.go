package main

import (
	"fmt"
	"strings"

	"golang.org/x/tools/go/ssa"
)

func (c *Ctx) fmtPath(a apath) string {
	var fs []string
	for _, f := range a.Fields {
		fs = append(fs, f.Name())
	}
	root := fmt.Sprintf("%T", a.Root)
	switch x := a.Root.(type) {
	case *ssa.Parameter:
		root = "param " + x.Name() + " of " + fname(x.Parent())
	case *ssa.Call:
		root = "call " + calleeName(x)
	case *ssa.Extract:
		root = fmt.Sprintf("extract#%d of %T", x.Index, x.Tuple)
		if cl, ok := x.Tuple.(*ssa.Call); ok {
			root = fmt.Sprintf("extract#%d of call %s", x.Index, calleeName(cl))
		}
	case *ssa.Alloc:
		root = "alloc " + x.Comment + " in " + fname(x.Parent())
	case *ssa.Const:
		root = "const " + x.String()
	}
	return root + "." + strings.Join(fs, ".")
}

func debugOrigins(c *Ctx) {
	p, r := c.P, c.R
	for _, u := range p.uses(r.FInflight) {
		if u.Val != nil {
			var ps []string
			for _, a := range c.origins(u.Val) {
				ps = append(ps, c.fmtPath(a))
			}
			fmt.Printf("inflight %s in %s key: %v\n", u.Kind, fname(u.Fn), ps)
		}
	}
	for _, u := range p.uses(r.FHandling) {
		if u.Val != nil {
			var ps []string
			for _, a := range c.origins(u.Val) {
				ps = append(ps, c.fmtPath(a))
			}
			fmt.Printf("handling %s in %s key: %v\n", u.Kind, fname(u.Fn), ps)
		}
	}
	for _, fn := range p.Funcs {
		allInstrsRaw(fn, func(in ssa.Instruction) {
			if s, ok := in.(*ssa.Send); ok {
				var ps, vs []string
				for _, a := range c.origins(s.Chan) {
					ps = append(ps, c.fmtPath(a))
				}
				for _, a := range c.origins(s.X) {
					vs = append(vs, c.fmtPath(a))
				}
				fmt.Printf("send in %s chan=%v val=%v\n", fname(fn), ps, vs)
			}
		})
	}
}
