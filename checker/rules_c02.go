package main

import (
	"fmt"
	"go/token"
	"go/types"
	"strings"

	"golang.org/x/tools/go/ssa"
)

func init() {
	register(&propInfo{
		ID: "C02",
		Explanation: "Value-origin and path analysis of the response-routing mechanism of the WebSocket client: (R02.1) request ids are minted only by sync/atomic operations on the client's counter, pass through the id normaliser, and nothing else is stored in a request's id; (R02.2) an id-bearing request is registered in the in-flight table before it is written; (R02.3) every mailbox is a fresh channel of capacity >= 1; (R02.4) the response handler delivers to the mailbox of the entry looked up under the response's own id, with result/error/id taken from that same frame; (R02.5) delivery is single: the response handler removes the entry on every path after delivering, the failer empties the table, the accept arm answers only requests it did not register; (R02.6) frames are executed in arrival order: one executor goroutine started outside any loop, enqueue before the next read is started, synchronous dispatch down to the response / channel handlers; (R02.7) the frame decode target is a zero-valued allocation made per frame (decoding into a recycled struct would alias buffers already handed to callers and handlers).",
		NotDecided: "That a given schedule completes; HTTP (one exchange per call, no shared routing state); the redundant response-id equality checks on the caller side (defensive only).",
		Assumptions: []string{"encoding/json reuses the backing array of a pre-populated []byte/RawMessage field when decoding into it", "the connection loop is the only receiver of the request queue"},
		Run: runC02,
	})
}

// leaves expands phis (and single-store locals) to leaf values.
func leaves(v ssa.Value, seen map[ssa.Value]bool, out *[]ssa.Value) {
	if seen[v] {
		return
	}
	seen[v] = true
	switch x := v.(type) {
	case *ssa.Phi:
		for _, e := range x.Edges {
			leaves(e, seen, out)
		}
		return
	case *ssa.UnOp:
		if x.Op == token.MUL {
			if al, ok := x.X.(*ssa.Alloc); ok {
				n := 0
				for _, ref := range *al.Referrers() {
					if st, ok := ref.(*ssa.Store); ok && st.Addr == al {
						n++
						leaves(st.Val, seen, out)
					}
				}
				if n > 0 {
					return
				}
			}
		}
	}
	*out = append(*out, v)
}

func (c *Ctx) registerBeforeWrite(rule string) {
	r := c.R
	w := c.ws()
	arm, ok := w.Arms["requests"]
	if !ok || arm.Body == nil || w.SendReq == nil {
		c.und(rule, "request-accept arm", "-", "accept arm or request writer not resolved")
		return
	}
	construct := fmt.Sprintf("%s: register before write", fname(r.FnLoop))
	isRegister := func(in ssa.Instruction) bool {
		mu, ok := in.(*ssa.MapUpdate)
		return ok && isLoadOf(mu.Map, r.FInflight)
	}
	if wv := reachFromBlockF(arm.Body, func(in ssa.Instruction) bool { return isCallTo(in, w.SendReq) }, isRegister, c.assumeID(false)); wv != nil {
		c.bad(rule, construct, c.ipos(wv), "an id-bearing request can be written before it is registered: a fast reply is dropped as 'unknown id' and the call hangs")
		return
	}
	// the registered key is the request's own id and the value the request itself
	okAll := false
	for b := range armBlocks(arm) {
		for _, in := range b.Instrs {
			if mu, ok := in.(*ssa.MapUpdate); ok && isLoadOf(mu.Map, r.FInflight) {
				okAll = true
				if !c.fromRequestQueue(mu.Value) {
					okAll = false
					c.bad(rule, construct, c.ipos(mu), "the value registered is not the request just received from the queue")
				}
				if _, isID := loadsField(mu.Key, r.FReqID); !isID || !c.fromRequestQueue(mu.Key) {
					okAll = false
					c.bad(rule, construct, c.ipos(mu), "the request is not registered under its own id")
				}
			}
		}
	}
	if okAll {
		c.ok(rule, construct, c.ipos(arm.Body.Instrs[0]), "registration under the request's own id precedes the write on every id-bearing path")
	} else if c.ruleN[rule] == 0 {
		c.bad(rule, construct, c.ipos(arm.Body.Instrs[0]), "the accept arm never registers a request")
	}
}

func runC02(c *Ctx) {
	p, r := c.P, c.R
	w := c.ws()
	c.rule("R02.1", "ids are minted only by sync/atomic on the client's counter, normalised, and a request's id is nil or such an id")
	c.rule("R02.2", "an id-bearing request is registered under its own id before it is written")
	c.rule("R02.3", "every mailbox is a freshly made channel with capacity >= 1")
	c.rule("R02.4", "the response handler delivers to the entry looked up under the response's id, with payload taken from that same frame")
	c.rule("R02.5", "single delivery: remove after deliver; failer empties the table; the accept arm answers only unregistered requests")
	c.rule("R02.6", "frames are executed strictly in arrival order by a single executor")
	c.rule("R02.7", "the frame decode target is a fresh zero-valued allocation per frame")

	// ---- R02.1
	if c.need("R02.1", "F_idctr", r.FIdCtr != nil) && c.need("R02.1", "FN_call", r.FnCall != nil) && c.need("R02.1", "FN_norm", r.FnNorm != nil) {
		var mint []ssa.Value
		for _, u := range p.uses(r.FIdCtr) {
			if isFreshAlloc(u.Base) {
				continue
			}
			construct := fmt.Sprintf("%s: %s of the id counter", fname(u.Fn), u.Kind)
			atomicOp := false
			if ci, ok := u.At.(ssa.CallInstruction); ok && u.Kind == "addr-arg" {
				n := calleeName(ci)
				if strings.HasPrefix(n, "sync/atomic.") || strings.HasPrefix(n, "(*sync/atomic.") {
					atomicOp = true
					if v, ok := u.At.(ssa.Value); ok {
						mint = append(mint, v)
					}
				}
			}
			if !atomicOp && len(p.lockInfo().mustAt(u.At)) > 0 {
				atomicOp = true // lock-protected counter is an accepted idiom
				if u.Load != nil {
					mint = append(mint, u.Load)
				}
			}
			c.check(atomicOp, "R02.1", construct, c.ipos(u.At), "atomic", "the id counter is accessed non-atomically by concurrently running callers: two calls can obtain the same id and receive each other's response")
		}
		// the request literal's id in FN_call
		nid := 0
		allInstrs(r.FnCall, func(in ssa.Instruction) {
			st, ok := in.(*ssa.Store)
			if !ok {
				return
			}
			fa, ok := st.Addr.(*ssa.FieldAddr)
			if !ok || fieldOfAddr(fa) != r.FReqID {
				return
			}
			nid++
			construct := fmt.Sprintf("%s: id of the outgoing request", fname(r.FnCall))
			var lv []ssa.Value
			leaves(st.Val, map[ssa.Value]bool{}, &lv)
			okAll := true
			for _, l := range lv {
				if isNilConst(l) {
					continue
				}
				if ex, ok := l.(*ssa.Extract); ok && ex.Index == 0 {
					if call, ok := ex.Tuple.(*ssa.Call); ok && staticCallee(call) == r.FnNorm {
						isMint := func(v ssa.Value) bool {
							for _, m := range mint {
								if m == v {
									return true
								}
							}
							return false
						}
						if c.dependsOn(call.Common().Args[0], isMint, 0, map[ssa.Value]bool{}) {
							continue
						}
						okAll = false
						c.bad("R02.1", construct, c.ipos(call), "the normalised id does not come from the atomic counter")
						continue
					}
				}
				if mi, ok := l.(*ssa.MakeInterface); ok {
					// pre-normalisation value stored in the same variable: tolerated only if it is the minted value
					isM := false
					for _, m := range mint {
						if mi.X == m {
							isM = true
						}
					}
					if isM {
						// must be overwritten by the normalised value before use: the store we look at takes a phi/loaded value; accept only if a normalised leaf also exists
						continue
					}
				}
				okAll = false
				c.bad("R02.1", construct, c.ipos(st), fmt.Sprintf("the request id can originate from %T, not from the normalised atomic counter", l))
			}
			hasNorm := false
			for _, l := range lv {
				if ex, ok := l.(*ssa.Extract); ok {
					if call, ok := ex.Tuple.(*ssa.Call); ok && staticCallee(call) == r.FnNorm {
						hasNorm = true
					}
				}
			}
			if okAll && !hasNorm {
				okAll = false
				c.bad("R02.1", construct, c.ipos(st), "the id is never passed through the id normaliser: it would not match the decoded (float64) id of the reply")
			}
			if okAll {
				c.ok("R02.1", construct, c.ipos(st), "nil (notification) or normalise(atomic counter)")
			}
		})
		if nid == 0 {
			c.und("R02.1", fname(r.FnCall)+": id of the outgoing request", p.pos(r.FnCall.Pos()), "no request literal with an id found in the call path")
		}
	}

	// ---- R02.2
	c.registerBeforeWrite("R02.2")
	// ---- R02.3
	c.mailboxRule("R02.3")

	// ---- R02.4 / R02.5 (response handler)
	if c.needWS("R02.4", "resp", w.Resp) {
		f := w.Resp
		var lk *ssa.Lookup
		for _, u := range usesOfKind(usesIn(p.uses(r.FInflight), f), "maplookup") {
			lk = u.At.(*ssa.Lookup)
		}
		var send *ssa.Send
		allInstrs(f, func(in ssa.Instruction) {
			if s, ok := in.(*ssa.Send); ok {
				if ch, ok := s.Chan.Type().Underlying().(*types.Chan); ok && ch.Elem() == types.Type(r.TCresp) {
					send = s
				}
			}
		})
		construct := fmt.Sprintf("%s: delivery of a response", fname(f))
		if lk == nil || send == nil {
			c.bad("R02.4", construct, p.pos(f.Pos()), "the response handler does not look up the in-flight table and deliver to the entry's mailbox")
		} else {
			okAll := true
			// key = ID field of the frame parameter
			frameParam := c.frameParamOf(f)
			keyOK := false
			if fv, ok := lk.Index.(*ssa.Field); ok && frameParam != nil && c.isParamCopy(fv.X, frameParam) && strings.Contains(structOf(fv.X.Type()).Tag(fv.Field), `json:"id`) {
				keyOK = true
			}
			if ld, ok := lk.Index.(*ssa.UnOp); ok && ld.Op == token.MUL {
				if fa, ok := ld.X.(*ssa.FieldAddr); ok && frameParam != nil && c.isParamCopy(fa.X, frameParam) && strings.Contains(structOf(fa.X.Type()).Tag(fa.Field), `json:"id`) {
					keyOK = true
				}
			}
			if !keyOK {
				okAll = false
				c.bad("R02.4", construct, c.ipos(lk), "the in-flight entry is not looked up under the id of the response frame being handled")
			}
			// channel operand: ready field of the looked-up entry
			chOK := false
			var lv []ssa.Value
			leaves(send.Chan, map[ssa.Value]bool{}, &lv)
			for _, l := range lv {
				if c.derivesFromLookup(l, lk) {
					chOK = true
				} else {
					chOK = false
					break
				}
			}
			if !chOK {
				okAll = false
				c.bad("R02.4", construct, c.ipos(send), "the mailbox written to is not the one of the entry found under the response's id")
			}
			// payload fields from the same frame
			if !c.payloadFromFrame(send.X, frameParam) {
				okAll = false
				c.bad("R02.4", construct, c.ipos(send), "the delivered result/error/id are not all taken from the response frame being handled")
			}
			if okAll {
				c.ok("R02.4", construct, c.ipos(send), "lookup by frame id, mailbox of that entry, payload from the same frame")
			}
			// R02.5: remove after deliver
			isDel := func(in ssa.Instruction) bool {
				ci, ok := in.(*ssa.Call)
				if !ok {
					return false
				}
				if b, ok := ci.Call.Value.(*ssa.Builtin); ok && b.Name() == "delete" {
					return isLoadOf(ci.Call.Args[0], r.FInflight) && sameVal(ci.Call.Args[1], lk.Index)
				}
				return false
			}
			c5 := fmt.Sprintf("%s: entry removed after delivery", fname(f))
			if ret := mustFollowFrom(send, isDel); ret != nil {
				c.bad("R02.5", c5, c.ipos(ret), "a path returns after delivering without removing the entry: a repeated or later frame with that id is delivered to a call that has already returned (and the one-slot mailbox eventually blocks the executor)")
			} else {
				c.ok("R02.5", c5, c.ipos(send), "delete of the same key on every path after the send")
			}
			// every path that found the entry delivers or returns via log only — paths returning between lookup and send leave the entry registered: they must not have consumed it. (error paths before send are allowed: the failer answers later)
		}
	}
	// R02.5: every other delivery site must be a helper of the response handler whose call is followed by the removal
	if w.Resp != nil {
		var lk *ssa.Lookup
		for _, u := range usesOfKind(usesIn(p.uses(r.FInflight), w.Resp), "maplookup") {
			lk = u.At.(*ssa.Lookup)
		}
		for _, fn := range p.Funcs {
			if pkgOf(fn) != p.Root.Pkg || fn == w.Resp || fn == w.Failer || fn == r.FnLoop {
				continue
			}
			allInstrs(fn, func(in ssa.Instruction) {
				isSend := false
				switch x := in.(type) {
				case *ssa.Send:
					if ch, ok := x.Chan.Type().Underlying().(*types.Chan); ok && ch.Elem() == types.Type(r.TCresp) {
						isSend = true
					}
				case *ssa.Select:
					for _, st := range x.States {
						if ch, ok := st.Chan.Type().Underlying().(*types.Chan); ok && st.Dir == types.SendOnly && ch.Elem() == types.Type(r.TCresp) {
							isSend = true
						}
					}
				}
				if !isSend {
					return
				}
				construct := fmt.Sprintf("%s: delivery of a completion outside the response handler", fname(fn))
				sites := p.callers[fn]
				if len(sites) == 0 || lk == nil {
					c.bad("R02.5", construct, c.ipos(in), "a completion is delivered from a place that is neither the response handler, the failer nor the accept arm")
					return
				}
				for _, s := range sites {
					if s.Parent() != w.Resp {
						c.bad("R02.5", construct, c.ipos(s), "a completion is delivered by a helper called from outside the response handler")
						continue
					}
					isDel := func(x ssa.Instruction) bool {
						ci, ok := x.(*ssa.Call)
						if !ok {
							return false
						}
						if b, ok := ci.Call.Value.(*ssa.Builtin); ok && b.Name() == "delete" {
							return isLoadOf(ci.Call.Args[0], r.FInflight) && sameVal(ci.Call.Args[1], lk.Index)
						}
						return false
					}
					if ret := mustFollowFrom(s, isDel); ret != nil {
						c.bad("R02.5", construct, c.ipos(ret), "after the helper delivered the completion the response handler returns without removing the entry: a repeated response is delivered again")
					} else {
						c.ok("R02.5", construct, c.ipos(s), "helper call followed by removal of the entry on every path")
					}
				}
			})
		}
	}
	// R02.5 failer part: reuse R03.4's decision
	if w.Failer != nil {
		construct := fmt.Sprintf("%s: table emptied after answering", fname(w.Failer))
		var reset *ssa.Store
		for _, u := range usesOfKind(usesIn(p.uses(r.FInflight), w.Failer), "store") {
			reset = u.At.(*ssa.Store)
		}
		var rng ssa.Instruction
		for _, u := range usesOfKind(usesIn(p.uses(r.FInflight), w.Failer), "range") {
			rng = u.At
		}
		if reset == nil || rng == nil {
			c.bad("R02.5", construct, p.pos(w.Failer.Pos()), "entries answered by the failer stay registered: the next loss or exit answers calls that have already returned")
		} else if ret := mustFollowFrom(rng, func(in ssa.Instruction) bool { return in == ssa.Instruction(reset) }); ret != nil {
			c.bad("R02.5", construct, c.ipos(ret), "a path returns without emptying the table")
		} else {
			c.ok("R02.5", construct, c.ipos(reset), "table replaced on every path")
		}
	}
	// R02.5 accept arm: no answer after registration
	if arm, ok := w.Arms["requests"]; ok && arm.Body != nil {
		blocks := armBlocks(arm)
		construct := fmt.Sprintf("%s: accept arm answers only unregistered requests", fname(r.FnLoop))
		bad := false
		for b := range blocks {
			for _, in := range b.Instrs {
				mu, ok := in.(*ssa.MapUpdate)
				if !ok || !isLoadOf(mu.Map, r.FInflight) {
					continue
				}
				isAnswer := func(x ssa.Instruction) bool {
					s, ok := x.(*ssa.Send)
					if !ok || !blocks[x.Block()] {
						return false
					}
					ch, ok := s.Chan.Type().Underlying().(*types.Chan)
					return ok && ch.Elem() == types.Type(r.TCresp)
				}
				leaves := func(x ssa.Instruction) bool { return !blocks[x.Block()] }
				if wv := reachFromF(mu, isAnswer, leaves, c.assumeID(false)); wv != nil {
					bad = true
					c.bad("R02.5", construct, c.ipos(wv), "a request that was registered is also answered locally: its caller can receive two completions (the second blocks the loop or reaches a later call)")
				}
			}
		}
		if !bad {
			c.ok("R02.5", construct, c.ipos(arm.Body.Instrs[0]), "no local answer reachable after registration")
		}
	}

	// ---- R02.6
	if c.need("R02.6", "FN_exec", r.FnExec != nil) && c.need("R02.6", "FN_loop", r.FnLoop != nil) {
		var spawns []*ssa.Go
		for _, fn := range p.Funcs {
			allInstrs(fn, func(in ssa.Instruction) {
				if g, ok := in.(*ssa.Go); ok && p.unbound(staticCallee(g)) == r.FnExec {
					spawns = append(spawns, g)
				}
			})
		}
		construct := fmt.Sprintf("%s: single frame executor", fname(r.FnExec))
		switch {
		case len(spawns) != 1:
			c.bad("R02.6", construct, p.pos(r.FnExec.Pos()), fmt.Sprintf("the frame executor is started %d times: frames would be executed concurrently, out of arrival order", len(spawns)))
		case inLoop(spawns[0].Block()):
			c.bad("R02.6", construct, c.ipos(spawns[0]), "the frame executor is started inside a loop")
		default:
			c.ok("R02.6", construct, c.ipos(spawns[0]), "started once, outside any loop")
		}
		// synchronous dispatch chain
		for _, pair := range []struct {
			from, to *ssa.Function
			what     string
		}{{r.FnExec, w.FrameSwitch, "frame switch"}, {w.FrameSwitch, w.Resp, "response handler"}, {w.FrameSwitch, w.ChanVal, "channel-value handler"}, {w.FrameSwitch, w.ChanClose, "channel-close handler"}, {w.FrameSwitch, w.Cancel, "cancel handler"}, {w.FrameSwitch, w.Spawn, "call spawner"}} {
			if pair.from == nil || pair.to == nil {
				c.und("R02.6", "dispatch chain: "+pair.what, "-", "function role not resolved")
				continue
			}
			sites := callsTo(pair.from, pair.to)
			cons := fmt.Sprintf("%s: dispatch to the %s", fname(pair.from), pair.what)
			if len(sites) == 0 {
				c.bad("R02.6", cons, p.pos(pair.from.Pos()), "not dispatched directly any more")
				continue
			}
			for _, s := range sites {
				_, isCall := s.(*ssa.Call)
				c.check(isCall, "R02.6", cons, c.ipos(s), "synchronous", "dispatched on a new goroutine: frames of one connection are no longer handled in arrival order (a channel value can overtake the response announcing its channel)")
			}
		}
		// enqueue before the next read is started
		if w.ReadFrame != nil && w.Reader != nil {
			cons := fmt.Sprintf("%s: enqueue before starting the next read", fname(w.ReadFrame))
			var enq ssa.Instruction
			for _, u := range usesOfKind(usesIn(p.uses(r.FQueue), w.ReadFrame), "send", "select-send") {
				enq = u.At
			}
			n := 0
			allInstrs(w.ReadFrame, func(in ssa.Instruction) {
				g, ok := in.(*ssa.Go)
				if !ok || p.unbound(staticCallee(g)) != w.Reader {
					return
				}
				n++
				c.check(enq != nil && mustPrecede(w.ReadFrame, func(x ssa.Instruction) bool { return x == enq }, g), "R02.6", cons, c.ipos(g),
					"the frame is queued before the next read starts", "the next frame can be read and queued before this one: frames are executed out of arrival order")
			})
			if n == 0 {
				c.bad("R02.6", cons, p.pos(w.ReadFrame.Pos()), "the frame reader no longer restarts the socket read after queueing a frame")
			}
		}
	}

	// ---- R02.7
	c.freshDecodeTarget("R02.7")
}

// frameParamOf: the parameter of fn whose type is the frame struct.
func (c *Ctx) frameParamOf(fn *ssa.Function) *ssa.Parameter {
	for _, prm := range fn.Params {
		if prm.Type() == types.Type(c.R.TFrame) {
			return prm
		}
	}
	return nil
}

// isParamCopy: v is parameter prm, or the local it is spilled into (address or loaded value).
func (c *Ctx) isParamCopy(v ssa.Value, prm *ssa.Parameter) bool {
	if v == ssa.Value(prm) {
		return true
	}
	if ld, ok := v.(*ssa.UnOp); ok && ld.Op == token.MUL {
		v = ld.X
	}
	if al, ok := v.(*ssa.Alloc); ok {
		n := 0
		isP := false
		for _, ref := range *al.Referrers() {
			if st, ok := ref.(*ssa.Store); ok && st.Addr == al {
				n++
				isP = st.Val == ssa.Value(prm)
			}
		}
		return n == 1 && isP
	}
	return false
}

// derivesFromLookup: v is (a field of) the value result of lookup lk, through local copies.
func (c *Ctx) derivesFromLookup(v ssa.Value, lk *ssa.Lookup) bool {
	for i := 0; i < 8; i++ {
		switch x := v.(type) {
		case *ssa.Extract:
			return x.Tuple == ssa.Value(lk) && x.Index == 0
		case *ssa.Field:
			v = x.X
		case *ssa.FieldAddr:
			v = x.X
		case *ssa.UnOp:
			if x.Op != token.MUL {
				return false
			}
			v = x.X
		case *ssa.Alloc:
			var st *ssa.Store
			n := 0
			for _, ref := range *x.Referrers() {
				if s, ok := ref.(*ssa.Store); ok && s.Addr == x {
					st, n = s, n+1
				}
			}
			if n != 1 {
				return false
			}
			v = st.Val
		case *ssa.Lookup:
			return x == lk && !lk.CommaOk
		default:
			return false
		}
	}
	return false
}

// payloadFromFrame: the sent clientResponse literal takes its raw-message, error and id fields from the frame parameter.
func (c *Ctx) payloadFromFrame(v ssa.Value, frame *ssa.Parameter) bool {
	ld, ok := v.(*ssa.UnOp)
	if !ok || ld.Op != token.MUL || frame == nil {
		return false
	}
	al, ok := ld.X.(*ssa.Alloc)
	if !ok {
		return false
	}
	n := 0
	for _, ref := range *al.Referrers() {
		fa, ok := ref.(*ssa.FieldAddr)
		if !ok {
			continue
		}
		for _, r2 := range *fa.Referrers() {
			st, ok := r2.(*ssa.Store)
			if !ok || st.Addr != fa {
				continue
			}
			// value must be a field of the frame parameter (copy)
			src := st.Val
			okSrc := false
			switch s := src.(type) {
			case *ssa.Field:
				okSrc = c.isParamCopy(s.X, frame)
			case *ssa.UnOp:
				if s.Op == token.MUL {
					if sfa, ok := s.X.(*ssa.FieldAddr); ok {
						okSrc = c.isParamCopy(sfa.X, frame)
					}
				}
			}
			if !okSrc {
				return false
			}
			n++
		}
	}
	return n >= 3
}

// freshDecodeTarget: R02.7
func (c *Ctx) freshDecodeTarget(rule string) {
	r := c.R
	fn := r.FnExec
	if fn == nil || r.TFrame == nil {
		c.und(rule, "frame decode target", "-", "frame executor not resolved")
		return
	}
	n := 0
	allInstrs(fn, func(in ssa.Instruction) {
		ci, ok := in.(*ssa.Call)
		if !ok {
			return
		}
		t := decodeTarget(ci)
		al, ok := t.(*ssa.Alloc)
		if !ok || al.Type().(*types.Pointer).Elem() != types.Type(r.TFrame) {
			return
		}
		n++
		construct := fmt.Sprintf("%s: decode target of an inbound frame", fname(fn))
		if !inLoop(al.Block()) {
			c.bad(rule, construct, c.ipos(al), "the frame struct is allocated once and reused for every frame: its byte slices alias data already handed to callers and handler goroutines")
			return
		}
		// no store into the struct between allocation and decode
		dirty := func(x ssa.Instruction) bool {
			st, ok := x.(*ssa.Store)
			if !ok {
				return false
			}
			if st.Addr == ssa.Value(al) {
				// zero-value store is fine
				if k, ok := st.Val.(*ssa.Const); ok && k.Value == nil {
					return false
				}
				return true
			}
			if fa, ok := st.Addr.(*ssa.FieldAddr); ok && fa.X == ssa.Value(al) {
				return !isNilConst(st.Val)
			}
			return false
		}
		if reachFromVia(al, ci, dirty, func(x ssa.Instruction) bool { return x == ssa.Instruction(al) }) {
			c.bad(rule, construct, c.ipos(ci), "the frame struct is pre-populated (e.g. with a recycled buffer) before decoding: encoding/json reuses that backing array, so a later frame overwrites params/results a handler or caller is still reading")
			return
		}
		c.ok(rule, construct, c.ipos(ci), "zero-valued allocation inside the loop")
	})
	if n == 0 {
		c.und(rule, "frame decode target", "-", "no decode of an inbound frame found in the executor")
	}
}
