package main

import (
	"fmt"
	"go/token"
	"go/types"
	"strings"

	"golang.org/x/tools/go/ssa"
)

func init() {
	register(&propInfo{
		ID:          "C02",
		Explanation: "Value-origin and path analysis of the response-routing mechanism of the WebSocket client: (R02.1) request ids are minted only by sync/atomic operations on the client's counter, pass through the id normaliser, and nothing else is stored in a request's id; (R02.2) every id-bearing request that is accepted is registered in the in-flight table under its own id, as itself; (R02.3) every mailbox is a fresh channel of capacity >= 1; (R02.4) the response handler delivers to the mailbox of the entry looked up under the response's own id, with result/error/id taken from that same frame; (R02.5) delivery is single: the response handler removes the entry on every path after delivering, the failer empties the table, the accept arm answers only requests it did not register; (R02.6) frames are executed in arrival order: one executor goroutine started outside any loop, enqueue before the next read is started, synchronous dispatch down to the response / channel handlers; (R02.7) the frame decode target is a zero-valued allocation made per frame (decoding into a recycled struct would alias buffers already handed to callers and handlers). (R02.9) the request queue is unbuffered: the hand-over to the connection loop is a rendezvous, so no request is left in a buffer when the loop exits. (R02.10) the connection-unusable mark is set before every loss signal and cleared only after a new socket is installed. (R02.11) no handler runs on the frame executor; (R02.12) the reverse client is built per connection; (R02.13) every hand-over to the loop watches the current exit signal. (R02.14) the frame queue the executor reads from is made once, at construction. (R02.15) a frame taken off the socket is always queued for the executor. (R02.16) a request whose header the HTTP transport writes to carries a clone or a fresh map. (R02.17) nothing waits (channel operation, WaitGroup, Cond) between the hand-over of a call to its goroutine and the reflective call of the user method: the start of a handler never depends on the end of others. (R02.18) the accept arm answers or registers every accepted request on every path.",
		NotDecided:  "That a given schedule completes; HTTP (one exchange per call, no shared routing state); the redundant response-id equality checks on the caller side (defensive only).",
		Assumptions: []string{"encoding/json reuses the backing array of a pre-populated []byte/RawMessage field when decoding into it", "the connection loop is the only receiver of the request queue"},
		Run:         runC02,
	})
}

// leaves expands phis (and single-store locals) to leaf values.
func leaves(v ssa.Value, seen map[ssa.Value]bool, out *[]ssa.Value) {
	if seen[v] {
		return
	}
	seen[v] = true
	switch x := v.(type) {
	case *ssa.Phi:
		for _, e := range x.Edges {
			leaves(e, seen, out)
		}
		return
	case *ssa.UnOp:
		if x.Op == token.MUL {
			if al, ok := x.X.(*ssa.Alloc); ok {
				n := 0
				for _, ref := range *al.Referrers() {
					if st, ok := ref.(*ssa.Store); ok && st.Addr == al {
						n++
						leaves(st.Val, seen, out)
					}
				}
				if n > 0 {
					return
				}
			}
		}
	}
	*out = append(*out, v)
}

// fromQueue: v is (a field of) the request received from the request queue in the connection loop.
func (c *Ctx) fromQueue(v ssa.Value, fields ...*types.Var) bool {
	return c.allOrigins(v, func(a apath) bool { return c.isQueueRecv(a.Root) && pathIs(a, fields...) })
}

// isQueueRecv: root is the value received from the request queue in a select.
func (c *Ctx) isQueueRecv(root ssa.Value) bool {
	switch x := root.(type) {
	case *ssa.Extract:
		sel, ok := x.Tuple.(*ssa.Select)
		if !ok {
			return false
		}
		arms, _ := selectArms(sel)
		for _, arm := range arms {
			if arm.Recv == ssa.Value(x) && c.fieldVal(arm.State.Chan, c.R.FRequests) {
				return true
			}
		}
	case *ssa.UnOp:
		return x.Op == token.ARROW && c.fieldVal(x.X, c.R.FRequests)
	}
	return false
}

func (c *Ctx) registerBeforeWrite(rule string) {
	r := c.R
	construct := fmt.Sprintf("%s: registration of accepted requests", fname(r.FnLoop))
	n := 0
	okAll := true
	for _, u := range usesOfKind(c.P.uses(r.FInflight), "mapupdate") {
		mu := u.At.(*ssa.MapUpdate)
		n++
		if !c.fromQueue(mu.Value) {
			okAll = false
			c.bad(rule, construct, c.ipos(mu), "the value registered is not the request just received from the queue")
		}
		if !c.fromQueue(mu.Key, r.FCreqReq, r.FReqID) {
			okAll = false
			c.bad(rule, construct, c.ipos(mu), "the request is not registered under its own id")
		}
	}
	if n == 0 {
		c.bad(rule, construct, c.P.pos(r.FnLoop.Pos()), "no request is ever registered in the in-flight table")
	} else if okAll {
		c.ok(rule, construct, c.P.pos(r.FnLoop.Pos()), "registered as itself under its own id")
	}
}

func runC02(c *Ctx) {
	p, r := c.P, c.R
	_ = c.ws()
	c.rule("R02.1", "ids are minted only by sync/atomic on the client's counter, normalised, and a request's id is nil or such an id")
	c.rule("R02.2", "an accepted id-bearing request is registered under its own id, as itself")
	c.rule("R02.3", "every mailbox is a freshly made channel with capacity >= 1")
	c.rule("R02.4", "the response handler delivers to the entry looked up under the response's id, with payload taken from that same frame")
	c.rule("R02.5", "single delivery: remove after deliver; failer empties the table; the accept arm answers only unregistered requests")
	c.rule("R02.6", "frames are executed strictly in arrival order by a single executor")
	c.rule("R02.7", "the frame decode target is a fresh zero-valued allocation per frame")

	// ---- R02.1
	if c.need("R02.1", "F_idctr", r.FIdCtr != nil) && c.need("R02.1", "FN_call", r.FnCall != nil) && c.need("R02.1", "FN_norm", r.FnNorm != nil) {
		var mint []ssa.Value
		for _, u := range p.uses(r.FIdCtr) {
			if isFreshAlloc(u.Base) {
				continue
			}
			construct := fmt.Sprintf("%s: %s of the id counter", fname(u.Fn), u.Kind)
			atomicOp := false
			if ci, ok := u.At.(ssa.CallInstruction); ok && u.Kind == "addr-arg" {
				n := calleeName(ci)
				if strings.HasPrefix(n, "sync/atomic.") || strings.HasPrefix(n, "(*sync/atomic.") {
					atomicOp = true
					if v, ok := u.At.(ssa.Value); ok {
						mint = append(mint, v)
					}
				}
			}
			if !atomicOp && len(p.lockInfo().mustAt(u.At)) > 0 {
				atomicOp = true // lock-protected counter is an accepted idiom
				if u.Load != nil {
					mint = append(mint, u.Load)
				}
			}
			c.check(atomicOp, "R02.1", construct, c.ipos(u.At), "atomic", "the id counter is accessed non-atomically by concurrently running callers: two calls can obtain the same id and receive each other's response")
		}
		// the counter must live in the one client object shared by all proxy functions: a pointer to
		// a client that is a local *copy* (value receiver, `cl := *c`) gives every copy its own counter
		c.clientCopyRule("R02.1", false)
		// the request literal's id in the client call path (the call function, its helpers and closures)
		nid := 0
		isMint := func(v ssa.Value) bool {
			for _, m := range mint {
				if m == v {
					return true
				}
			}
			return false
		}
		for _, fn := range c.region(r.FnCall) {
			allInstrsRaw(fn, func(in ssa.Instruction) {
				st, ok := in.(*ssa.Store)
				if !ok {
					return
				}
				fa, ok := st.Addr.(*ssa.FieldAddr)
				if !ok || fieldOfAddr(fa) != r.FReqID {
					return
				}
				nid++
				construct := fmt.Sprintf("%s: id of the outgoing request", fname(in.Parent()))
				okAll, hasNorm := true, false
				for _, o := range c.origins(st.Val) {
					l := o.Root
					if len(o.Fields) == 0 && isNilConst(l) {
						continue
					}
					if ex, ok := l.(*ssa.Extract); ok && ex.Index == 0 && len(o.Fields) == 0 {
						if call, ok := ex.Tuple.(*ssa.Call); ok && p.unbound(staticCallee(call)) == r.FnNorm {
							hasNorm = true
							if c.dependsOn(call.Common().Args[0], isMint, 0, map[ssa.Value]bool{}) {
								continue
							}
							okAll = false
							c.bad("R02.1", construct, c.ipos(call), "the normalised id does not come from the atomic counter")
							continue
						}
					}
					if len(o.Fields) == 0 && isMint(l) {
						// pre-normalisation value held in the same variable: tolerated only next to a normalised origin (checked below)
						continue
					}
					okAll = false
					c.bad("R02.1", construct, c.ipos(st), fmt.Sprintf("the request id can originate from %T, not from the normalised atomic counter", l))
				}
				if okAll && !hasNorm {
					okAll = false
					c.bad("R02.1", construct, c.ipos(st), "the id is never passed through the id normaliser: it would not match the decoded (float64) id of the reply")
				}
				if okAll {
					c.ok("R02.1", construct, c.ipos(st), "nil (notification) or normalise(atomic counter)")
				}
			})
		}
		if nid == 0 {
			c.und("R02.1", fname(r.FnCall)+": id of the outgoing request", p.pos(r.FnCall.Pos()), "no request literal with an id found in the call path")
		}
	}

	// ---- R02.2
	c.registerBeforeWrite("R02.2")
	// ---- R02.3
	c.mailboxRule("R02.3")

	// ---- R02.4 / R02.5: every completion delivered anywhere is classified by whose mailbox it goes to
	c.deliveryRules("R02.4", "R02.5")
	c.inflightRemovalRule("R02.5")

	// ---- R02.6
	c.arrivalOrderRule("R02.6")

	// ---- R02.7
	c.freshDecodeTarget("R02.7")

	// ---- R02.8
	c.rule("R02.9", "a request handed to the connection loop is registered or failed: the hand-over is a rendezvous (unbuffered queue), so no request can be left in a buffer when the loop exits and every call completes")
	c.unbufferedQueue("R02.9")
	c.rule("R02.10", "a call accepted while the connection is unusable is failed at once, never registered: the unusable mark is set before every loss signal and cleared only after a new socket is installed")
	c.lossSignalRule("R02.10")
	c.rule("R02.11", "responses are delivered while handlers run: no handler (not even of a notification) runs on the frame executor, the only goroutine that routes responses")
	if invs := c.dispInvokes(); len(invs) == 0 {
		c.und("R02.11", "handler goroutine", "-", "no dispatcher invocation found")
	} else {
		for _, in := range invs {
			c.check(c.onOwnGoroutine(in), "R02.11", fmt.Sprintf("%s: handler goroutine", fname(outermost(in.Parent()))), c.ipos(in), "own goroutine",
				"a handler runs on the frame executor itself: while it runs no response on that connection is delivered and no later call is started, so a handler that waits for traffic on the same connection (a reverse call) never returns and every pending call hangs with it")
		}
	}
	c.rule("R02.12", "reverse calls get the response produced for that very request: the reverse client, its request queue and its proxy are built per connection")
	c.reverseClientFresh("R02.12")
	c.rule("R02.13", "every hand-over of a request to the connection loop is a select alternative to the client's exit signal as it is at that moment (a call made around close returns)")
	c.enqueueRule("R02.13")
	c.ruleOpt("R02.16", "concurrent HTTP calls share nothing mutable: a request whose header the transport writes to (Set/Add/Del) carries a clone or a fresh map, never the header map the client was configured with")
	c.headerNotShared("R02.16")
	c.ruleOpt("R02.17", "the start of a handler never waits for other handlers: between the frame executor handing a call to its goroutine and the user method running there is no channel operation, WaitGroup or Cond wait (a cap on concurrently served calls deadlocks calls whose completion depends on a later call, cancel or reverse-call response on the same connection)")
	c.noWaitBeforeHandler("R02.17")
	c.rule("R02.18", "every call returns: the connection loop answers or registers every request it accepted, on every path — notifications included (a request taken from the queue while the link is down and neither answered nor registered leaves its caller blocked for good)")
	c.acceptArmRule("R02.18")
	c.rule("R02.15", "a frame taken off the socket is always handed to the executor: the send on the frame queue waits as long as it takes (no timer or default branch lets the reader discard a frame — the call it answers would never complete)")
	c.frameNeverDiscarded("R02.15")
	c.rule("R02.14", "the frame queue the executor reads from is made once, when the connection object is set up: replacing it later (on reconnect) leaves the executor parked on the old queue and no response is dispatched any more")
	if c.need("R02.14", "F_queue", r.FQueue != nil) {
		n := 0
		for _, u := range usesOfKind(p.uses(r.FQueue), "store") {
			n++
			c.check(c.isConstruction(u), "R02.14", fmt.Sprintf("%s: store of the frame queue", fname(u.Fn)), c.ipos(u.At), "construction", "the frame queue is replaced while the connection is in use (e.g. a fresh queue after a reconnect): the single executor goroutine keeps waiting on the old channel, so responses read from the new connection are queued but never dispatched and every call hangs")
		}
		if n == 0 {
			c.und("R02.14", "frame queue", "-", "never made")
		}
	}
	c.rule("R02.8", "the argument list of the reflective handler call is allocated per invocation (never memory shared between calls)")
	c.freshArgList("R02.8")
}

// freshArgList: the []reflect.Value handed to reflect's Call is built from memory allocated during this
// dispatch: a make in the dispatcher's cone, or appends onto nil / such a make. A slice that lives longer
// than one call (a field of the method table, a package variable) — also as the base of an append, which
// writes into its spare capacity — makes concurrent calls of one method overwrite each other's arguments.
func (c *Ctx) freshArgList(rule string) {
	p, r := c.P, c.R
	if r.FnDisp == nil {
		c.und(rule, "dispatcher", "-", "not resolved")
		return
	}
	n := 0
	p.coneInstrs(r.FnDisp, func(in ssa.Instruction) {
		ci, ok := in.(*ssa.Call)
		if !ok {
			return
		}
		nm := calleeName(ci)
		if nm != "(reflect.Value).Call" && nm != "(reflect.Value).CallSlice" {
			return
		}
		n++
		construct := fmt.Sprintf("%s: argument list of the handler call", fname(in.Parent()))
		ok2, why := c.freshSlice(ci.Common().Args[1], 0)
		c.check(ok2, rule, construct, c.ipos(ci), "allocated during this dispatch", why+": concurrent calls of the same method overwrite each other's context and arguments, so a reply is computed from another call's parameters")
	})
	if n == 0 {
		c.und(rule, "reflective handler call", "-", "none found in the dispatcher's cone")
	}
}

func (c *Ctx) freshSlice(v ssa.Value, depth int) (bool, string) {
	if depth > 8 {
		return false, "origin chain of the argument list too deep"
	}
	os := c.origins(v)
	if len(os) == 0 {
		return false, "argument list of unknown origin"
	}
	for _, o := range os {
		if len(o.Fields) != 0 {
			return false, "the argument list (or the slice it is appended to) is read from field " + o.Fields[len(o.Fields)-1].Name()
		}
		switch x := o.Root.(type) {
		case *ssa.MakeSlice:
			if !c.P.inCone(c.R.FnDisp, x) {
				return false, "the argument list is made outside the dispatch"
			}
		case *ssa.Const:
			if !x.IsNil() {
				return false, "unexpected constant"
			}
		case *ssa.Slice:
			if al, ok := x.X.(*ssa.Alloc); ok && c.P.inCone(c.R.FnDisp, al) {
				continue // slice of a local array (varargs literal)
			}
			if ok, why := c.freshSlice(x.X, depth+1); !ok {
				return false, why
			}
		case *ssa.Call:
			if b, ok := x.Common().Value.(*ssa.Builtin); ok && b.Name() == "append" {
				if ok, why := c.freshSlice(x.Common().Args[0], depth+1); !ok {
					return false, why
				}
				continue
			}
			return false, "the argument list is produced by " + calleeName(x)
		default:
			return false, fmt.Sprintf("the argument list originates from %T, not from an allocation made for this call", o.Root)
		}
	}
	return true, ""
}

// frameParamOf: the parameter of fn whose type is the frame struct.
func (c *Ctx) frameParamOf(fn *ssa.Function) *ssa.Parameter {
	for _, prm := range fn.Params {
		if prm.Type() == types.Type(c.R.TFrame) {
			return prm
		}
	}
	return nil
}

// isParamCopy: v is parameter prm, or the local it is spilled into (address or loaded value).
func (c *Ctx) isParamCopy(v ssa.Value, prm *ssa.Parameter) bool {
	if v == ssa.Value(prm) {
		return true
	}
	if ld, ok := v.(*ssa.UnOp); ok && ld.Op == token.MUL {
		v = ld.X
	}
	if al, ok := v.(*ssa.Alloc); ok {
		n := 0
		isP := false
		for _, ref := range *al.Referrers() {
			if st, ok := ref.(*ssa.Store); ok && st.Addr == al {
				n++
				isP = st.Val == ssa.Value(prm)
			}
		}
		return n == 1 && isP
	}
	return false
}

// derivesFromLookup: v is (a field of) the value result of lookup lk, through local copies.
func (c *Ctx) derivesFromLookup(v ssa.Value, lk *ssa.Lookup) bool {
	for i := 0; i < 8; i++ {
		switch x := v.(type) {
		case *ssa.Extract:
			return x.Tuple == ssa.Value(lk) && x.Index == 0
		case *ssa.Field:
			v = x.X
		case *ssa.FieldAddr:
			v = x.X
		case *ssa.UnOp:
			if x.Op != token.MUL {
				return false
			}
			v = x.X
		case *ssa.Alloc:
			var st *ssa.Store
			n := 0
			for _, ref := range *x.Referrers() {
				if s, ok := ref.(*ssa.Store); ok && s.Addr == x {
					st, n = s, n+1
				}
			}
			if n != 1 {
				return false
			}
			v = st.Val
		case *ssa.Lookup:
			return x == lk && !lk.CommaOk
		default:
			return false
		}
	}
	return false
}

// payloadFromFrame: the sent clientResponse literal takes its raw-message, error and id fields from the frame parameter.
func (c *Ctx) payloadFromFrame(v ssa.Value, frame *ssa.Parameter) bool {
	ld, ok := v.(*ssa.UnOp)
	if !ok || ld.Op != token.MUL || frame == nil {
		return false
	}
	al, ok := ld.X.(*ssa.Alloc)
	if !ok {
		return false
	}
	n := 0
	for _, ref := range *al.Referrers() {
		fa, ok := ref.(*ssa.FieldAddr)
		if !ok {
			continue
		}
		for _, r2 := range *fa.Referrers() {
			st, ok := r2.(*ssa.Store)
			if !ok || st.Addr != fa {
				continue
			}
			// value must be a field of the frame parameter (copy)
			src := st.Val
			okSrc := false
			switch s := src.(type) {
			case *ssa.Field:
				okSrc = c.isParamCopy(s.X, frame)
			case *ssa.UnOp:
				if s.Op == token.MUL {
					if sfa, ok := s.X.(*ssa.FieldAddr); ok {
						okSrc = c.isParamCopy(sfa.X, frame)
					}
				}
			}
			if !okSrc {
				return false
			}
			n++
		}
	}
	return n >= 3
}

// freshDecodeTarget: R02.7 — inbound frames are decoded into a zero-valued struct that exists per frame.
func (c *Ctx) freshDecodeTarget(rule string) {
	p, r := c.P, c.R
	if r.FnExec == nil || r.TFrame == nil {
		c.und(rule, "frame decode target", "-", "frame executor not resolved")
		return
	}
	n := 0
	p.coneInstrs(r.FnExec, func(in ssa.Instruction) {
		ci, ok := in.(*ssa.Call)
		if !ok {
			return
		}
		t := decodeTarget(ci)
		if t == nil {
			return
		}
		pt, ok := t.Type().Underlying().(*types.Pointer)
		if !ok || pt.Elem() != types.Type(r.TFrame) {
			return
		}
		n++
		fn := in.Parent()
		construct := fmt.Sprintf("%s: decode target of an inbound frame", fname(fn))
		// where does the pointer come from?
		var allocs []*ssa.Alloc
		okRoots := true
		for _, a := range c.origins(t) {
			al, isAl := a.Root.(*ssa.Alloc)
			if !isAl || len(a.Fields) != 0 {
				okRoots = false
				continue
			}
			allocs = append(allocs, al)
		}
		if !okRoots || len(allocs) == 0 {
			c.bad(rule, construct, c.ipos(ci), "frames are decoded into memory that is not a local struct made for this frame (e.g. a field of the connection): its byte slices alias data already handed to callers and handler goroutines")
			return
		}
		for _, al := range allocs {
			if al.Parent() == r.FnExec && !inLoop(al.Block()) {
				c.bad(rule, construct, c.ipos(al), "the frame struct is allocated once and reused for every frame: its byte slices alias data already handed to callers and handler goroutines")
				return
			}
			dirty := func(x ssa.Instruction) bool {
				st, ok := x.(*ssa.Store)
				if !ok {
					return false
				}
				if st.Addr == ssa.Value(al) {
					if k, ok := st.Val.(*ssa.Const); ok && k.Value == nil {
						return false
					}
					return true
				}
				if fa, ok := st.Addr.(*ssa.FieldAddr); ok && fa.X == ssa.Value(al) {
					return !isNilConst(st.Val)
				}
				return false
			}
			if al.Parent() == fn && reachFromVia(al, ci, dirty, func(x ssa.Instruction) bool { return x == ssa.Instruction(al) }) {
				c.bad(rule, construct, c.ipos(ci), "the frame struct is pre-populated (e.g. with a recycled buffer) before decoding: encoding/json reuses that backing array, so a later frame overwrites params/results a handler or caller is still reading")
				return
			}
			if al.Parent() != fn {
				// allocated by a caller and passed down: any non-zero store into it before the call chain reaches the decode
				pre := false
				allInstrsRaw(al.Parent(), func(x ssa.Instruction) {
					if dirty(x) {
						pre = true
					}
				})
				if pre {
					c.bad(rule, construct, c.ipos(ci), "the frame struct is pre-populated before decoding")
					return
				}
			}
		}
		c.ok(rule, construct, c.ipos(ci), "zero-valued struct made per frame")
	})
	if n == 0 {
		c.und(rule, "frame decode target", "-", "no decode of an inbound frame found in the executor")
	}
}

func samePaths(a, b []apath) bool {
	if len(a) == 0 || len(a) != len(b) {
		return false
	}
	for _, x := range a {
		found := false
		for _, y := range b {
			if x.Root == y.Root && len(x.Fields) == len(y.Fields) {
				eq := true
				for i := range x.Fields {
					if x.Fields[i] != y.Fields[i] {
						eq = false
					}
				}
				if eq {
					found = true
				}
			}
		}
		if !found {
			return false
		}
	}
	return true
}

// deliveryRules: classify every completion by the origin of the mailbox it is sent to.
func (c *Ctx) deliveryRules(r4, r5 string) {
	p, r := c.P, c.R
	w := c.ws()
	idF := respFieldByTag(r.TCresp, "id")
	ndeliv := 0
	for _, fn := range p.Funcs {
		if pkgOf(fn) != p.Root.Pkg {
			continue
		}
		allInstrsRaw(fn, func(in ssa.Instruction) {
			if !c.isCompletion(in) {
				return
			}
			s, ok := in.(*ssa.Send)
			if !ok {
				c.und(r5, fmt.Sprintf("%s: completion in a select", fname(fn)), c.ipos(in), "completion delivered through a select: not classified")
				return
			}
			chans := c.origins(s.Chan)
			var lookups []*ssa.Lookup
			kind := ""
			for _, a := range chans {
				k := "other"
				if a.last() == r.FReady {
					switch x := a.Root.(type) {
					case *ssa.Extract:
						switch t := x.Tuple.(type) {
						case *ssa.Lookup:
							if c.fieldVal(t.X, r.FInflight) {
								k = "response"
								lookups = append(lookups, t)
							}
						case *ssa.Next:
							k = "failer"
						case *ssa.Select:
							k = "accept"
						}
					case *ssa.Lookup:
						if c.fieldVal(x.X, r.FInflight) {
							k = "response"
							lookups = append(lookups, x)
						}
					}
				}
				if kind == "" {
					kind = k
				} else if kind != k {
					kind = "mixed"
				}
			}
			switch kind {
			case "accept", "failer":
				return // decided by the accept-arm rule / the failer rule
			case "response":
			default:
				c.bad(r5, fmt.Sprintf("%s: delivery of a completion", fname(fn)), c.ipos(in), "a completion is delivered to a mailbox that is neither the entry found under the response's id, nor a swept entry, nor the request just accepted")
				return
			}
			ndeliv++
			construct := fmt.Sprintf("%s: delivery of a response", fname(fn))
			okAll := true
			var keyPaths []apath
			for _, lk := range lookups {
				kp := c.origins(lk.Index)
				if keyPaths == nil {
					keyPaths = kp
				} else if !samePaths(keyPaths, kp) {
					okAll = false
					c.bad(r4, construct, c.ipos(in), "the mailbox can come from lookups under different keys")
				}
			}
			// the key is the id of an inbound frame (normalised by the executor)
			frameID := func(a apath) bool {
				if ex, ok := a.Root.(*ssa.Extract); ok && ex.Index == 0 {
					if call, ok := ex.Tuple.(*ssa.Call); ok && staticCallee(call) == r.FnNorm {
						return r.FnExec != nil && p.inCone(r.FnExec, call)
					}
				}
				return a.last() != nil && r.TFrame != nil && a.last() == respFieldByTag(r.TFrame, "id")
			}
			for _, a := range keyPaths {
				if !frameID(a) {
					okAll = false
					c.bad(r4, construct, c.ipos(in), "the in-flight entry is not looked up under the id of the response frame being handled")
					break
				}
			}
			// payload: id == the lookup key; result and error from a frame
			if idF != nil && !samePaths(c.originsOf(s.X, idF), keyPaths) {
				okAll = false
				c.bad(r4, construct, c.ipos(in), "the delivered id is not the id the entry was looked up under")
			}
			for _, tag := range []string{"result", "error"} {
				pf, ff := respFieldByTag(r.TCresp, tag), respFieldByTag(r.TFrame, tag)
				if pf == nil || ff == nil {
					continue
				}
				if !c.allOriginsOf(s.X, []*types.Var{pf}, func(a apath) bool { return a.last() == ff }) {
					okAll = false
					c.bad(r4, construct, c.ipos(in), "the delivered "+tag+" is not taken from the response frame being handled")
				}
			}
			if okAll {
				c.ok(r4, construct, c.ipos(in), "lookup by frame id, mailbox of that entry, payload from the same frame")
			}
			// single delivery: the entry is removed before the frame's handling ends
			isDel := func(x ssa.Instruction) bool {
				ci, ok := isBuiltinCall(x, "delete")
				return ok && c.fieldVal(ci.Call.Args[0], r.FInflight) && samePaths(c.origins(ci.Call.Args[1]), keyPaths)
			}
			c5 := fmt.Sprintf("%s: entry removed after delivery", fname(fn))
			if ret := mustFollowFrom(in, isDel); ret != nil {
				c.bad(r5, c5, c.ipos(ret), "the handling of a response frame can end after delivering without removing the entry: a repeated or later frame with that id is delivered to a call that has already returned (and the one-slot mailbox eventually blocks the executor)")
			} else {
				c.ok(r5, c5, c.ipos(in), "delete of the same key on every path after the send")
			}
		})
	}
	if ndeliv == 0 {
		c.bad(r4, "delivery of a response", "-", "no place delivers a response to the entry found under its id")
	}
	// failer part
	if w.Failer != nil {
		construct := fmt.Sprintf("%s: table emptied after answering", fname(w.Failer))
		var reset ssa.Instruction
		for _, u := range usesOfKind(p.uses(r.FInflight), "store", "clear") {
			if !c.isConstruction(u) && p.inCone(w.Failer, u.At) {
				reset = u.At
			}
		}
		var rng ssa.Instruction
		for _, u := range usesOfKind(usesIn(p.uses(r.FInflight), w.Failer), "range") {
			rng = u.At
		}
		if reset == nil || rng == nil {
			c.bad(r5, construct, p.pos(w.Failer.Pos()), "entries answered by the failer stay registered: the next loss or exit answers calls that have already returned")
		} else if ret := reachFrom(rng, isReturn, func(in ssa.Instruction) bool { return in == reset }); ret != nil && ret.Parent() == w.Failer {
			c.bad(r5, construct, c.ipos(ret), "a path returns without emptying the table")
		} else {
			c.ok(r5, construct, c.ipos(reset), "table replaced on every path")
		}
	}
	// accept arm: no local answer after registration
	if arm, ok := w.Arms["requests"]; ok && arm.Body != nil {
		blocks := armBlocks(arm)
		construct := fmt.Sprintf("%s: accept arm answers only unregistered requests", fname(r.FnLoop))
		leaves := func(x ssa.Instruction) bool { return !inRegion(blocks, x) || isReturn(x) }
		regd := false
		edge := c.assumeID(false)
		// search from the arm start: is there a path register -> completion inside the arm?
		bad := false
		p.coneInstrs(r.FnLoop, func(in ssa.Instruction) {
			if !c.isRegisterInflight(in) {
				return
			}
			regd = true
		})
		s1 := newIPSearch(func(x ssa.Instruction) bool { return c.isRegisterInflight(x) }, leaves)
		s1.edgeOK = edge
		s1.seen[fmt.Sprintf("%p|", arm.Body)] = true
		_ = s1
		// two-phase: reach a completion having passed a registration
		passed := map[ssa.Instruction]bool{}
		var firstReg ssa.Instruction
		srch := newIPSearch(func(x ssa.Instruction) bool {
			if c.isRegisterInflight(x) {
				passed[x] = true
				firstReg = x
			}
			return false
		}, leaves)
		srch.edgeOK = edge
		srch.seen[fmt.Sprintf("%p|", arm.Body)] = true
		srch.scan(arm.Body, 0, nil)
		for reg := range passed {
			s2 := newIPSearch(func(x ssa.Instruction) bool { return c.isCompletion(x) }, leaves)
			s2.edgeOK = edge
			s2.up = true
			if s2.scan(reg.Block(), instrIndex(reg)+1, nil) {
				bad = true
				c.bad(r5, construct, c.ipos(s2.found), "a request that was registered is also answered locally: its caller can receive two completions (the second blocks the loop or reaches a later call)")
			}
		}
		_ = firstReg
		if !bad && regd {
			c.ok(r5, construct, c.ipos(arm.Body.Instrs[0]), "no local answer reachable after registration")
		}
	}
}

// allOriginsOf: every origin of v projected by fields satisfies pred.
func (c *Ctx) allOriginsOf(v ssa.Value, fields []*types.Var, pred func(apath) bool) bool {
	os := c.originsOf(v, fields...)
	if len(os) == 0 {
		return false
	}
	for _, o := range os {
		if !pred(o) {
			return false
		}
	}
	return true
}

// inflightRemovalRule: an entry leaves the in-flight table only together with a completion delivered
// to its mailbox (before or after, on every path of the activity). An entry that is merely deleted
// (e.g. "the write failed, forget it") belongs to a caller that is never answered — not by a response,
// not by the failer on connection loss, not by the client's close.
func (c *Ctx) inflightRemovalRule(rule string) {
	p, r := c.P, c.R
	for _, u := range usesOfKind(p.uses(r.FInflight), "delete") {
		construct := fmt.Sprintf("%s: removal of an in-flight entry", fname(u.Fn))
		before := mustPrecedeIP(u.At, c.isCompletion, 0)
		after := mustFollowFrom(u.At, c.isCompletion) == nil
		c.check(before || after, rule, construct, c.ipos(u.At), "accompanied by a completion on every path", "an in-flight entry is removed without a completion being delivered to its caller on every path: that call is never answered — neither by a response nor by the failer on connection loss or close")
	}
}

// clientCopyRule: no pointer to a copy of the client object (value receiver, struct copy) is kept
// behind a proxy function: each copy would have its own id counter. With report, a discharged
// obligation is emitted when no such copy exists.
func (c *Ctx) clientCopyRule(rule string, report bool) {
	p, r := c.P, c.R
	nbad := 0
	if r.TClient != nil {
		for _, fn := range p.Funcs {
			if pkgOf(fn) != p.Root.Pkg {
				continue
			}
			allInstrsRaw(fn, func(in ssa.Instruction) {
				st, ok := in.(*ssa.Store)
				if !ok {
					return
				}
				pt, ok := st.Val.Type().Underlying().(*types.Pointer)
				if !ok || pt.Elem() != types.Type(r.TClient) {
					return
				}
				if _, isField := st.Addr.(*ssa.FieldAddr); !isField {
					return
				}
				for _, o := range c.origins(st.Val) {
					al, ok := o.Root.(*ssa.Alloc)
					if !ok || len(o.Fields) != 0 {
						continue
					}
					for _, ref := range *al.Referrers() {
						if s2, ok := ref.(*ssa.Store); ok && s2.Addr == ssa.Value(al) {
							if k, isK := s2.Val.(*ssa.Const); isK && k.Value == nil {
								continue
							}
							// a copy of an existing client: the value comes from a by-value parameter
							// (value receiver) or from dereferencing a client pointer; a value built by
							// a constructor helper and stored once is a construction, not a copy
							isCopy := false
							for _, o2 := range []apath{{Root: s2.Val}} {
								switch x := o2.Root.(type) {
								case *ssa.Parameter:
									if x.Type() == types.Type(r.TClient) {
										isCopy = true
									}
								case *ssa.UnOp:
									if x.Op == token.MUL && x.Type() == types.Type(r.TClient) {
										isCopy = true
									}
								}
							}
							if !isCopy {
								continue
							}
							nbad++
							c.bad(rule, fmt.Sprintf("%s: client object behind a proxy function", fname(fn)), c.ipos(st), "a pointer to a copy of the client is kept (value receiver or struct copy): each copy has its own id counter, so calls of different methods in flight together carry the same id and one takes the other's response")
						}
					}
				}
			})
		}
	}
	if report && nbad == 0 {
		c.ok(rule, "client object behind the proxy functions", "-", "no copy of the client object is kept")
	}
}

// frameNeverDiscarded: R02.15. Every send on the frame queue is a plain send, or a select whose other
// alternatives are not timers; a non-blocking attempt (default) must lead to another send on the queue
// before the function returns or restarts the socket reader.
func (c *Ctx) frameNeverDiscarded(rule string) {
	p, r := c.P, c.R
	if r.FQueue == nil {
		c.und(rule, "frame queue", "-", "not resolved")
		return
	}
	isTimer := func(ch ssa.Value) bool {
		return c.dependsOn(ch, func(v ssa.Value) bool {
			if call, ok := v.(*ssa.Call); ok {
				switch calleeName(call) {
				case "time.After", "time.Tick", "time.NewTimer", "time.NewTicker":
					return true
				}
			}
			return false
		}, 0, map[ssa.Value]bool{})
	}
	isEnq := func(x ssa.Instruction) bool {
		switch y := x.(type) {
		case *ssa.Send:
			return c.fieldVal(y.Chan, r.FQueue)
		case *ssa.Select:
			for _, st := range y.States {
				if st.Dir == types.SendOnly && c.fieldVal(st.Chan, r.FQueue) {
					return true
				}
			}
		}
		return false
	}
	n := 0
	for _, fn := range p.Funcs {
		if pkgOf(fn) != p.Root.Pkg {
			continue
		}
		allInstrsRaw(fn, func(in ssa.Instruction) {
			if !isEnq(in) {
				return
			}
			n++
			construct := fmt.Sprintf("%s: hand-over of a frame to the executor", fname(fn))
			sel, ok := in.(*ssa.Select)
			if !ok {
				c.ok(rule, construct, c.ipos(in), "plain blocking send")
				return
			}
			for _, st := range sel.States {
				if st.Dir == types.RecvOnly && isTimer(st.Chan) {
					c.bad(rule, construct, c.ipos(in), "the send on the frame queue competes with a timer: when the executor is behind for that long the frame is discarded — if it was a request its call never gets a response, if it was a response its caller waits for ever (a duration that is zero on one side makes this immediate)")
					return
				}
			}
			if !sel.Blocking {
				// a successful non-blocking send legitimately reaches the return: decide on the default edge only
				if !c.defaultLeadsToEnqueue(sel, isEnq) {
					c.bad(rule, construct, c.ipos(in), "a non-blocking send on the frame queue whose default branch does not end in another, blocking hand-over: a frame that finds the queue full is discarded")
					return
				}
			}
			c.ok(rule, construct, c.ipos(in), "select without timer alternatives")
		})
	}
	if n == 0 {
		c.und(rule, "hand-over of frames", "-", "no send on the frame queue found")
	}
}

// defaultLeadsToEnqueue: on the branch where the non-blocking select chose its default (index -1),
// every path to a return passes an enqueue.
func (c *Ctx) defaultLeadsToEnqueue(sel *ssa.Select, isEnq func(ssa.Instruction) bool) bool {
	var idx ssa.Value
	for _, ref := range *sel.Referrers() {
		if ex, ok := ref.(*ssa.Extract); ok && ex.Index == 0 {
			idx = ex
		}
	}
	if idx == nil {
		return false
	}
	// blocks reached when idx compares equal to a state index are the non-default arms
	var def *ssa.BasicBlock
	cur := sel.Block()
	for steps := 0; steps < len(sel.States)+1 && cur != nil; steps++ {
		iff, ok := cur.Instrs[len(cur.Instrs)-1].(*ssa.If)
		if !ok {
			break
		}
		bo, ok := iff.Cond.(*ssa.BinOp)
		if !ok || bo.X != idx {
			break
		}
		cur = cur.Succs[1]
		def = cur
	}
	if def == nil {
		return false
	}
	return reachFromBlock(def, isReturn, func(x ssa.Instruction) bool { return x != ssa.Instruction(sel) && isEnq(x) }) == nil
}

// headerNotShared: R02.16. Every store into the Header field of an *http.Request in the library stores a
// value whose origins are all (http.Header).Clone() results or maps made on the spot — unless no code of
// that function family ever mutates a request header. Parallel calls over one HTTP client otherwise
// write the same map concurrently ("fatal error: concurrent map writes" kills the process, and with it
// every call in flight).
func (c *Ctx) headerNotShared(rule string) {
	p := c.P
	isReqHeader := func(v ssa.Value) bool {
		f := loadedField(v)
		return f != nil && f.Name() == "Header" && f.Pkg() != nil && f.Pkg().Path() == "net/http" && isNamed(derefType(v, f), "net/http", "Request")
	}
	n := 0
	for _, fn := range p.Funcs {
		if pkgOf(fn) != p.Root.Pkg {
			continue
		}
		mutates := false
		for _, g := range c.region(outermost(fn)) {
			allInstrsRaw(g, func(in ssa.Instruction) {
				ci, ok := in.(*ssa.Call)
				if !ok {
					return
				}
				switch calleeName(ci) {
				case "(net/http.Header).Set", "(net/http.Header).Add", "(net/http.Header).Del":
					if c.dependsOn(ci.Common().Args[0], isReqHeader, 0, map[ssa.Value]bool{}) {
						mutates = true
					}
				}
			})
		}
		allInstrsRaw(fn, func(in ssa.Instruction) {
			st, ok := in.(*ssa.Store)
			if !ok {
				return
			}
			fa, ok := st.Addr.(*ssa.FieldAddr)
			if !ok {
				return
			}
			f := fieldOfAddr(fa)
			if f == nil || f.Name() != "Header" || f.Pkg() == nil || f.Pkg().Path() != "net/http" {
				return
			}
			if pt, ok := fa.X.Type().Underlying().(*types.Pointer); !ok || !isNamed(pt.Elem(), "net/http", "Request") {
				return
			}
			n++
			construct := fmt.Sprintf("%s: header given to an outgoing request", fname(fn))
			own := c.allOrigins(st.Val, func(a apath) bool {
				if len(a.Fields) != 0 {
					return false
				}
				switch x := a.Root.(type) {
				case *ssa.MakeMap:
					return true
				case *ssa.Call:
					return calleeName(x) == "(net/http.Header).Clone"
				}
				return false
			})
			c.check(own || !mutates, rule, construct, c.ipos(st), "a clone or a fresh map (or never written to)",
				"the request is given the client's configured header map itself and the transport then writes to it (Content-Type): calls running in parallel over this client write one map concurrently — the runtime aborts the process, so none of the calls in flight ever returns")
		})
	}
	if n == 0 {
		c.ok(rule, "request headers", "-", "no store into an http.Request's Header")
	}
}

// noWaitBeforeHandler: R02.17. Calls on one connection may depend on each other: a long-poll or
// rendezvous method returns when a later call arrives, a handler waits for its own cancel frame or for
// the response to a reverse call. Every one of them therefore has to be started as soon as its frame is
// executed. A blocking channel operation (semaphore slot, worker-pool hand-over), a WaitGroup or a Cond
// wait between the hand-over of the call to its goroutine and the reflective call of the user method
// makes the start of handler n+1 depend on the end of handlers 1..n: once the first n all wait for
// call n+1, nothing on the connection ever completes. Decided in the dispatcher's cone (a user call is
// reachable after the wait in the same activation) and in the goroutine bodies that invoke the
// dispatcher (the invocation is reachable after the wait). Mutexes are not waits in this sense.
func (c *Ctx) noWaitBeforeHandler(rule string) {
	p, r := c.P, c.R
	if r.FnDisp == nil {
		c.und(rule, "role:FN_disp", "-", "dispatcher not resolved")
		return
	}
	isWait := func(in ssa.Instruction) string {
		switch x := in.(type) {
		case *ssa.Send:
			return "channel send"
		case *ssa.Select:
			if x.Blocking {
				return "blocking select"
			}
		case *ssa.UnOp:
			if x.Op == token.ARROW {
				return "channel receive"
			}
		case ssa.CallInstruction:
			switch calleeName(x) {
			case "(*sync.WaitGroup).Wait":
				return "WaitGroup.Wait"
			case "(*sync.Cond).Wait":
				return "Cond.Wait"
			}
		}
		return ""
	}
	n := 0
	report := func(in ssa.Instruction, what, before string) {
		n++
		c.bad(rule, fmt.Sprintf("%s: %s before %s", fname(in.Parent()), what, before), c.ipos(in),
			"the handler's start waits on something other handlers release ("+what+"): with enough calls parked in their handlers — each waiting for a later call, a cancel frame or a reverse-call response on this connection — the call they wait for is never started and nothing completes")
	}
	// (a) inside the dispatcher: a wait from which the user method is still to be called
	for _, g := range p.cone(r.FnDisp) {
		if pkgOf(g) != p.Root.Pkg {
			continue
		}
		allInstrs(g, func(in ssa.Instruction) {
			what := isWait(in)
			if what == "" {
				return
			}
			if reachFrom(in, c.isUserCall, nil) != nil {
				report(in, what, "the user method is called")
			}
		})
	}
	// (b) in the goroutine that serves one call: a wait from which the dispatcher is still to be invoked
	invs := c.dispInvokes()
	isInv := func(in ssa.Instruction) bool {
		for _, x := range invs {
			if x == in {
				return true
			}
		}
		return false
	}
	seen := map[*ssa.Function]bool{}
	for _, inv := range invs {
		fn := inv.Parent()
		if seen[fn] || !c.spawnedAsGoroutine(fn) {
			continue
		}
		seen[fn] = true
		for _, g := range p.cone(fn) {
			if pkgOf(g) != p.Root.Pkg || p.syncReachable(r.FnDisp, g) {
				continue
			}
			allInstrs(g, func(in ssa.Instruction) {
				what := isWait(in)
				if what == "" {
					return
				}
				if reachFrom(in, isInv, nil) != nil {
					report(in, what, "the dispatcher is invoked")
				}
			})
		}
	}
	if n == 0 {
		c.ok(rule, "no instance", "-", "nothing waits between the hand-over of a call and its handler")
	}
}
