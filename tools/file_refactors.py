#!/usr/bin/env python3
"""File sub-agent refactorings under /verif/refactors/<Rnn>-r<k>/ after re-checking them on the current HEAD.
usage: file_refactors.py RFA=R61 RFB=R62 ...   (source /tmp/wt/<RFx>/out/r<k>/)"""
import glob, os, shutil, subprocess, sys
ENV = dict(os.environ, GOFLAGS="-mod=mod", GOPROXY="off", GOSUMDB="off", GOTOOLCHAIN="local"); ENV.pop("GOWORK", None)
def sh(cmd, cwd):
    p = subprocess.run(cmd, shell=True, cwd=cwd, env=ENV, stdout=subprocess.PIPE, stderr=subprocess.STDOUT)
    return p.returncode, p.stdout.decode(errors="replace")
for arg in sys.argv[1:]:
    src, dst = arg.split("=")
    for d in sorted(glob.glob(f"/tmp/wt/{src}/out/r*")):
        k = os.path.basename(d)
        rid = f"{dst}-{k}"
        patch = d + "/patch.diff"
        if not os.path.exists(patch):
            print(rid, "no patch"); continue
        wt = f"/tmp/fr/{rid}"
        subprocess.run(f"git -C /repo worktree remove --force {wt}", shell=True, stderr=subprocess.DEVNULL)
        shutil.rmtree(wt, ignore_errors=True); os.makedirs("/tmp/fr", exist_ok=True)
        subprocess.run(f"git -C /repo worktree add -q --detach {wt} HEAD", shell=True, check=True)
        try:
            rc, out = sh(f"git apply {patch}", wt)
            how = "applies"
            if rc:
                rc, out = sh(f"git apply --3way {patch}", wt)
                how = "three-way merged onto HEAD"
                if rc:
                    print(rid, "REJECT: does not apply:", out[-200:]); continue
            rc, out = sh("go build ./... && go vet ./... && go test -vet=off -count=1 -timeout 10m ./...", wt)
            if rc:
                rc, out = sh("go test -vet=off -count=1 -timeout 10m ./...", wt)
                if rc:
                    print(rid, "REJECT: build/vet/suite fails:", out[-300:]); continue
            o = f"/verif/refactors/{rid}"
            shutil.rmtree(o, ignore_errors=True); os.makedirs(o)
            rc, diff = sh("git add -A && git diff --cached HEAD", wt)
            open(o + "/patch.diff", "w").write(diff)
            if os.path.exists(d + "/notes.md"):
                shutil.copy(d + "/notes.md", o + "/notes.md")
            print(rid, "KEPT", how)
        finally:
            subprocess.run(f"git -C /repo worktree remove --force {wt}", shell=True, stderr=subprocess.DEVNULL)
            shutil.rmtree(wt, ignore_errors=True)
