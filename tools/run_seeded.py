#!/usr/bin/env python3
"""Run the checks against every confirmed seeded mutation (scratch copy of /repo + patch)
and print which (property, rule) fire. usage: run_seeded.py [id ...]"""
import json, os, subprocess, sys, tempfile, shutil, glob
from concurrent.futures import ThreadPoolExecutor
ids = sys.argv[1:] or sorted(os.path.basename(d) for d in glob.glob("/verif/seeded/*") if os.path.isdir(d))
def one(sid):
    d = f"/verif/seeded/{sid}"
    tmp = tempfile.mkdtemp(prefix="seeded-")
    try:
        subprocess.run(f"rsync -a --exclude .git --exclude '*_test.go' /repo/ {tmp}/", shell=True, check=True)
        r = subprocess.run(f"git apply --directory={tmp} --unsafe-paths {d}/patch.diff 2>&1 || patch -p1 -s -d {tmp} < {d}/patch.diff", shell=True, cwd="/", stdout=subprocess.PIPE, stderr=subprocess.STDOUT)
        out = subprocess.run([os.environ.get("JRPCHECK", "/verif/bin/jrpcheck"), "-repo", tmp, "-property", "all", "-no-evidence", "-json"], stdout=subprocess.PIPE, stderr=subprocess.STDOUT).stdout.decode()
        line = out.strip().split("\n")[-1]
        try:
            obls = json.loads(line)
        except Exception:
            return sid, None, out[-300:]
        fired = sorted({(o["property"], o["rule"]) for o in obls if o["status"] != "discharged"})
        return sid, fired, ""
    finally:
        shutil.rmtree(tmp, ignore_errors=True)
with ThreadPoolExecutor(6) as ex:
    for sid, fired, err in ex.map(one, ids):
        prop = sid.split("-")[0]
        if fired is None:
            print(f"{sid}: ERROR {err}"); continue
        own = [f"{p}/{r}" for p, r in fired if p == prop]
        other = [f"{p}/{r}" for p, r in fired if p != prop]
        status = "CAUGHT" if own else ("caught-by-other" if other else "MISSED")
        cj = f"/verif/seeded/{sid}/caught.json"
        if os.environ.get("NO_WRITE"):
            pass
        elif own or other:
            json.dump({"property": prop if own else other[0].split("/")[0], "rules": [x.split("/")[1] for x in (own or other)], "all_fired": [f"{p}/{r}" for p, r in fired]}, open(cj, "w"), indent=1)
        elif os.path.exists(cj):
            os.remove(cj)
        print(f"{sid}: {status} own={own} other={other}")
