#!/usr/bin/env python3
"""Generate compound variants (refactoring + seeded defect) into mutants/x_*.diff.
For each definition in mutants/compound.py: copy /repo, apply the base refactoring,
apply the textual edits (each must match exactly once), check that it builds, and
write the unified diff against /repo with the usual mutant header."""
import os, sys, subprocess, tempfile, shutil, importlib.util
here = os.path.dirname(os.path.abspath(__file__))
mdir = os.path.join(os.path.dirname(here), "mutants")
spec = importlib.util.spec_from_file_location("compound", os.path.join(mdir, "compound.py"))
mod = importlib.util.module_from_spec(spec); spec.loader.exec_module(mod)
env = dict(os.environ, GOFLAGS="-mod=mod", GOPROXY="off", GOSUMDB="off", GOTOOLCHAIN="local"); env.pop("GOWORK", None)
only = set(sys.argv[1:]); bad = 0
for d in mod.COMPOUND:
    if only and d["name"] not in only: continue
    tmp = tempfile.mkdtemp(prefix="cmp-")
    try:
        a, b = os.path.join(tmp, "a"), os.path.join(tmp, "b")
        for t in (a, b):
            subprocess.run(f"rsync -a --exclude .git /repo/ {t}/", shell=True, check=True)
        r = subprocess.run(f"git apply --unsafe-paths --directory={b} /verif/refactors/{d['base']}/patch.diff", shell=True, cwd="/", capture_output=True)
        if r.returncode:
            r = subprocess.run(f"patch -p1 -s -d {b} < /verif/refactors/{d['base']}/patch.diff", shell=True, capture_output=True)
            if r.returncode:
                print("!!", d["name"], "base does not apply"); bad += 1; continue
        ok = True
        for path, old, new in d["edits"]:
            src = open(os.path.join(b, path)).read()
            if src.count(old) != 1:
                print("!!", d["name"], "pattern matches", src.count(old), "times in", path); ok = False; break
            open(os.path.join(b, path), "w").write(src.replace(old, new))
        if not ok: bad += 1; continue
        r = subprocess.run("go build ./... && go vet ./... 2>&1 | tail -3", shell=True, cwd=b, env=env, capture_output=True)
        if r.returncode:
            print("!!", d["name"], "does not build:", (r.stdout + r.stderr).decode()[-300:]); bad += 1; continue
        diff = subprocess.run("diff -ruN -x .git a b", shell=True, cwd=tmp, capture_output=True).stdout.decode()
        hdr = [f"# mutant: {d['name']}", f"# property: {d['property']}", "# expect: fire", f"# rule: {d['rule']}", f"# what: (on refactoring {d['base']}) {d['what']}"]
        open(os.path.join(mdir, d["name"] + ".diff"), "w").write("\n".join(hdr) + "\n" + diff)
    finally:
        shutil.rmtree(tmp, ignore_errors=True)
print("done, failures:", bad); sys.exit(1 if bad else 0)
