#!/usr/bin/env python3
"""Run the checks against the own must-fire variants (mutants/*.diff with '# expect: fire') and report those whose
named rule does not fire. Quick counterpart of the thorough tier for use during rule development."""
import glob, json, os, re, shutil, subprocess, sys, tempfile
from concurrent.futures import ThreadPoolExecutor
files = [f for f in sorted(glob.glob("/verif/mutants/*.diff")) if "# expect: fire" in open(f).read(600)]
def one(pf):
    head = open(pf).read(800)
    prop = re.search(r"# property: (\S+)", head).group(1)
    rule = (re.search(r"# rule: *(\S*)", head).group(1) or "").strip()
    tmp = tempfile.mkdtemp(prefix="fire-")
    try:
        subprocess.run(f"rsync -a --exclude .git --exclude '*_test.go' /repo/ {tmp}/", shell=True, check=True)
        r = subprocess.run(f"patch -p1 -s -d {tmp} < {pf}", shell=True, stdout=subprocess.PIPE, stderr=subprocess.STDOUT)
        if r.returncode:
            return pf, "DOES-NOT-APPLY"
        out = subprocess.run([os.environ.get("JRPCHECK", "/verif/bin/jrpcheck"), "-repo", tmp, "-property", prop, "-no-evidence", "-json"], stdout=subprocess.PIPE, stderr=subprocess.STDOUT).stdout.decode()
        try:
            obls = json.loads(out.strip().split("\n")[-1])
        except Exception:
            return pf, "ERROR " + out[-200:]
        fired = {o["rule"] for o in obls if o["status"] != "discharged"}
        if rule and rule in fired: return pf, "ok"
        if not rule and fired: return pf, "ok"
        return pf, f"NOT-FIRED (wanted {prop}/{rule}, fired {sorted(fired)})"
    finally:
        shutil.rmtree(tmp, ignore_errors=True)
with ThreadPoolExecutor(8) as ex:
    bad = 0
    for pf, res in ex.map(one, files):
        if res != "ok":
            bad += 1
            print(os.path.basename(pf)[:-5] + ": " + res)
    print(f"{len(files)} must-fire variants, {bad} not ok")
