#!/usr/bin/env python3
"""Confirm sub-agent mutations and file them under /verif/seeded/<id>/.

usage: verify_seeded.py Cxx [Cyy ...]
For each /tmp/wt/Cxx/out/m*/ : in a fresh scratch worktree of /repo HEAD
  1. git apply patch.diff; go build ./... ; go vet ./...
  2. full test suite with the mutation (must pass)
  3. demonstration with the mutation (must fail / time out)
  4. git checkout; demonstration without the mutation (must pass)
Only mutations for which all four hold are kept (meta.json records what was run).
"""
import json, os, re, shutil, subprocess, sys, glob, time

ENV = dict(os.environ, GOFLAGS="-mod=mod", GOPROXY="off", GOSUMDB="off", GOTOOLCHAIN="local")
ENV.pop("GOWORK", None)

def sh(cmd, cwd, timeout=900):
    t0 = time.time()
    try:
        p = subprocess.run(cmd, shell=True, cwd=cwd, env=ENV, stdout=subprocess.PIPE, stderr=subprocess.STDOUT, timeout=timeout)
        return p.returncode, p.stdout.decode(errors="replace"), time.time() - t0
    except subprocess.TimeoutExpired as e:
        return 124, (e.stdout or b"").decode(errors="replace") + "\n[timeout]", time.time() - t0

def pkgdir(path):
    src = open(path).read()
    m = re.search(r"^package\s+(\w+)", src, re.M)
    pk = m.group(1) if m else "jsonrpc"
    return {"httpio": "httpio", "httpio_test": "httpio", "auth": "auth", "auth_test": "auth"}.get(pk, ".")

def main():
    for pid in sys.argv[1:]:
        base = os.environ.get("WT_BASE", "/tmp/wt")
        tag = os.environ.get("ID_TAG", "")
        for mdir in sorted(glob.glob(f"{base}/{pid}/out/m*")):
            k = os.path.basename(mdir)
            sid = f"{pid}-{tag}{k}"
            patch = os.path.join(mdir, "patch.diff")
            if not os.path.exists(patch):
                print(sid, "no patch"); continue
            demos = [f for f in glob.glob(os.path.join(mdir, "*_test.go"))]
            if not demos:
                print(sid, "no demo test file"); continue
            wt = f"/tmp/vs/{sid}"
            subprocess.run(f"git -C /repo worktree remove --force {wt}", shell=True, stderr=subprocess.DEVNULL)
            shutil.rmtree(wt, ignore_errors=True)
            os.makedirs("/tmp/vs", exist_ok=True)
            subprocess.run(f"git -C /repo worktree add -q --detach {wt} HEAD", shell=True, check=True)
            meta = {"id": sid, "property": pid, "repo_head": subprocess.check_output("git -C /repo rev-parse --short HEAD", shell=True).decode().strip(), "ran": []}
            def rec(cmd, rc, out, dt):
                meta["ran"].append({"cmd": cmd, "exit": rc, "seconds": round(dt, 1), "tail": out[-600:]})
            try:
                names = sorted(set(re.findall(r"func (Test\w+)\(", "".join(open(d).read() for d in demos))))
                runre = "^(" + "|".join(names) + ")$"
                dst = []
                def put():
                    for d in demos:
                        t = os.path.join(wt, pkgdir(d), "zz_seeded_" + os.path.basename(d))
                        shutil.copy(d, t); dst.append(t)
                def drop():
                    for t in dst:
                        if os.path.exists(t): os.remove(t)
                pk = "./" + pkgdir(demos[0]) if pkgdir(demos[0]) != "." else "."
                democmd = f"go test {os.environ.get('SEED_TEST_FLAGS', '')} -vet=off -count=1 -timeout 180s -run '{runre}' {pk}"
                rc, out, dt = sh(f"git apply {patch}", wt); rec("git apply patch.diff", rc, out, dt)
                if rc:
                    # written against an older HEAD (before a later fix: commit): three-way merge, keep the rebased diff
                    rc, out, dt = sh(f"git apply --3way {patch} && git diff HEAD > {mdir}/patch.rebased.diff", wt); rec("git apply --3way patch.diff (rebased onto HEAD)", rc, out, dt)
                    if rc: print(sid, "REJECT: patch does not apply"); continue
                    patch = os.path.join(mdir, "patch.rebased.diff")
                rc, out, dt = sh("go build ./... && go vet ./...", wt); rec("go build ./... && go vet ./...", rc, out, dt)
                if rc: print(sid, "REJECT: build/vet fails"); continue
                rc, out, dt = sh("go test -vet=off -count=1 -timeout 10m ./...", wt); rec("go test ./... (with mutation)", rc, out, dt)
                if rc:
                    rc, out, dt = sh("go test -vet=off -count=1 -timeout 10m ./...", wt); rec("go test ./... (with mutation, retry)", rc, out, dt)
                    if rc: print(sid, "REJECT: suite fails with mutation"); continue
                put()
                rc, out, dt = sh(democmd, wt, timeout=300); rec("demo with mutation: " + democmd, rc, out, dt)
                with_fail = rc != 0
                drop()
                sh("git reset -q --hard && git clean -fdq", wt)
                put()
                rc, out, dt = sh(democmd, wt, timeout=300); rec("demo without mutation: " + democmd, rc, out, dt)
                without_pass = rc == 0
                drop()
                meta["demo_fails_with_mutation"] = with_fail
                meta["demo_passes_without_mutation"] = without_pass
                if not (with_fail and without_pass):
                    print(sid, f"REJECT: demo with->fail={with_fail} without->pass={without_pass}");
                    json.dump(meta, open(f"/tmp/vs/{sid}.rejected.json", "w"), indent=1)
                    continue
                out_dir = f"/verif/seeded/{sid}"
                shutil.rmtree(out_dir, ignore_errors=True)
                os.makedirs(out_dir)
                shutil.copy(patch, out_dir + "/patch.diff")
                for d in demos:
                    # keep demos out of any Go build: rename to .go.txt
                    shutil.copy(d, out_dir + "/" + os.path.basename(d) + ".txt")
                notes = os.path.join(mdir, "notes.md")
                if os.path.exists(notes):
                    shutil.copy(notes, out_dir + "/notes.md")
                    meta["needs_to_manifest"] = "see notes.md (written by the independent sub-agent that produced the change)"
                meta["demo_package_dir"] = pkgdir(demos[0])
                meta["demo_tests"] = names
                json.dump(meta, open(out_dir + "/meta.json", "w"), indent=1)
                print(sid, "KEPT")
            finally:
                subprocess.run(f"git -C /repo worktree remove --force {wt}", shell=True, stderr=subprocess.DEVNULL)
                shutil.rmtree(wt, ignore_errors=True)

main()
