#!/usr/bin/env python3
"""Generate /verif/MANIFEST.json. A property is listed under checks iff it
appears in CLAIMED below; everything else goes to not_applicable with a reason."""
import json, os
V = "/verif"
props = [json.loads(l) for l in open(f"{V}/properties.jsonl")]

ENV = "GOFLAGS=-mod=vendor GOPROXY=off GOSUMDB=off GOTOOLCHAIN=local GOWORK=off"
SETUP = f"cd /verif/checker && {ENV} go build -o /verif/bin/jrpcheck ."

# id -> (technique, level text, level note, design ref)
CLAIMED = {}
def claim(pid, technique, text, note, ref):
    CLAIMED[pid] = (technique, text, note, ref)

NA = {
}
PENDING = "check not built yet (work in progress; see DESIGN.md section 5 for the plan)"

COMMON_NOTE = "Trusted: go/types and go/ssa of golang.org/x/tools v0.29.0 (vendored), the gorilla/websocket concurrency contract as documented, Go semantics of defer/recover, sync.Mutex/Once and sync/atomic. Roles (which type is the connection, which field the in-flight table, ...) are resolved by type and use on every run; an unresolved role or an unrecognised code shape is reported as a failure, never skipped. Path queries are interprocedural (virtual inlining of synchronous callees, continuation into callers, path facts) and values are followed through helpers, parameters and closed struct fields; reflection targets (user handlers) are opaque."

exec(open(f"{V}/tools/claims.py").read())

checks = []
na = []
for p in props:
    pid = p["id"]
    if pid in CLAIMED:
        tech, text, note, ref = CLAIMED[pid]
        checks.append({
            "property_id": pid,
            "quick_cmd": f"/verif/bin/jrpcheck -property {pid} -tier quick",
            "thorough_cmd": f"/verif/bin/jrpcheck -property {pid} -tier thorough",
            "evidence_file": f"/verif/evidence/{pid}.json",
            "replay_cmd_template": "/verif/bin/jrpcheck -replay {path}",
            "engine": "jrpcheck",
            "level_claimed": {"category": "other", "text": text, "design_ref": ref},
            "level_note": (note + " " if note else "") + COMMON_NOTE,
            "technique": tech,
        })
    else:
        na.append({"property_id": pid, "reason": NA.get(pid, PENDING)})

m = {
 "version": 1,
 "setup_cmd": SETUP,
 "hooks": {
   "guard": "verif",
   "enable": "none needed: the checks analyse /repo's sources statically; no instrumentation is compiled into the library",
   "baseline_off_cmd": "cd /repo && GOFLAGS=-mod=mod GOPROXY=off GOSUMDB=off GOTOOLCHAIN=local go test -vet=off -count=1 ./...",
   "source_commits": [],
   "add_only": True,
 },
 "engines": [{
   "name": "jrpcheck",
   "path": "/verif/checker",
   "serves_properties": sorted(CLAIMED),
   "kind_free_text": "repository-specific static analyser over go/packages + go/ssa: role resolution by type and use, must/may locksets with callee summaries, interprocedural instruction-level path rules (must-precede, must-pass-through, must-not-reach; virtual inlining, path facts), value-origin analysis, linear index forms, close-once typestate, callback must-call summaries; thorough tier additionally self-validates against must-fire variants (own, compound, independently seeded) and must-stay-silent variants (behaviour-preserving refactorings by independent agents) applied to scratch copies of the current tree",
 }],
 "checks": checks,
 "not_applicable": na,
 "notes": "All claimed properties are decided by static analysis of /repo's current source at level 'other': structural necessary conditions, on all control paths, whose violation must break the stated behaviour. What each check does not decide (schedules, values through encoding/json and reflect, wall-clock bounds) is stated in its evidence file (coverage.not_decided) and in DESIGN.md section 5. Repaired defects are listed in /verif/known_findings.json as 'fixed:' entries; they suppress nothing.",
}
json.dump(m, open(f"{V}/MANIFEST.json", "w"), indent=1)
print("claimed:", sorted(CLAIMED), "n/a:", [x["property_id"] for x in na])
