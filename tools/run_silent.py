#!/usr/bin/env python3
"""Run all checks against the own must-stay-silent variants (mutants/*.diff with '# expect: silent').
Quick counterpart of the thorough tier for use during rule development (JRPCHECK overrides the binary)."""
import glob, json, os, shutil, subprocess, sys, tempfile
from concurrent.futures import ThreadPoolExecutor
files = [f for f in sorted(glob.glob("/verif/mutants/*.diff")) if "# expect: silent" in open(f).read(400)]
def one(pf):
    tmp = tempfile.mkdtemp(prefix="silent-")
    try:
        subprocess.run(f"rsync -a --exclude .git --exclude '*_test.go' /repo/ {tmp}/", shell=True, check=True)
        r = subprocess.run(f"patch -p1 -s -d {tmp} < {pf}", shell=True, stdout=subprocess.PIPE, stderr=subprocess.STDOUT)
        if r.returncode:
            return pf, None, "patch does not apply: " + r.stdout.decode()[-200:]
        out = subprocess.run([os.environ.get("JRPCHECK", "/verif/bin/jrpcheck"), "-repo", tmp, "-property", "all", "-no-evidence", "-json"], stdout=subprocess.PIPE, stderr=subprocess.STDOUT).stdout.decode()
        try:
            obls = json.loads(out.strip().split("\n")[-1])
        except Exception:
            return pf, None, out[-300:]
        return pf, [o for o in obls if o["status"] != "discharged"], ""
    finally:
        shutil.rmtree(tmp, ignore_errors=True)
with ThreadPoolExecutor(6) as ex:
    for pf, bad, err in ex.map(one, files):
        name = os.path.basename(pf)[:-5]
        if bad is None:
            print(f"{name}: ERROR {err}")
        elif not bad:
            print(f"{name}: silent")
        else:
            print(f"{name}: FIRES " + "; ".join(f"{o['property']}/{o['rule']}@{o['construct']}" for o in bad)[:300])
