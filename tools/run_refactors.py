#!/usr/bin/env python3
"""Run all checks against behaviour-preserving refactorings (must stay silent).
usage: run_refactors.py <glob of patch files or dirs>..."""
import json, os, subprocess, sys, tempfile, shutil, glob
from concurrent.futures import ThreadPoolExecutor
pats = sys.argv[1:] or ["/verif/refactors/*/patch.diff"]
files = sorted(f for p in pats for f in glob.glob(p))
def one(pf):
    tmp = tempfile.mkdtemp(prefix="refac-")
    try:
        subprocess.run(f"rsync -a --exclude .git --exclude '*_test.go' /repo/ {tmp}/", shell=True, check=True)
        r = subprocess.run(f"git apply --directory={tmp} --unsafe-paths {pf}", shell=True, cwd="/", stdout=subprocess.PIPE, stderr=subprocess.STDOUT)
        if r.returncode:
            r = subprocess.run(f"patch -p1 -s -d {tmp} < {pf}", shell=True, stdout=subprocess.PIPE, stderr=subprocess.STDOUT)
            if r.returncode:
                return pf, None, "patch does not apply: " + r.stdout.decode()[-200:]
        out = subprocess.run([os.environ.get("JRPCHECK", "/verif/bin/jrpcheck"), "-repo", tmp, "-property", "all", "-no-evidence", "-json"], stdout=subprocess.PIPE, stderr=subprocess.STDOUT).stdout.decode()
        try:
            obls = json.loads(out.strip().split("\n")[-1])
        except Exception:
            return pf, None, out[-300:]
        return pf, [o for o in obls if o["status"] != "discharged"], ""
    finally:
        shutil.rmtree(tmp, ignore_errors=True)
with ThreadPoolExecutor(6) as ex:
    for pf, bad, err in ex.map(one, files):
        name = "/".join(pf.split("/")[-4:-1]) if "/out/" in pf else pf.split("/")[-2]
        if bad is None:
            print(f"{name}: ERROR {err}")
        elif not bad:
            print(f"{name}: silent")
        else:
            print(f"{name}: FIRES")
            for o in bad:
                print(f"    {o['property']}/{o['rule']} {o['status']} {o['construct']} @ {o['pos']}: {o['detail'][:160]}")
