#!/usr/bin/env python3
"""Regenerate /verif/mutants/*.diff from mutants/defs.py.

Each definition is (name, property, expect, rule, file, old, new[, more edits...]):
an exact-substring replacement (must match exactly once) in /repo's current file.
expect = "fire" (the named rule must report a violation) or "silent"
(behaviour-preserving variant: the property's check must stay quiet).
The diffs are what the thorough tier applies to a scratch copy of the current
/repo tree; this script is only the authoring aid.
"""
import difflib, os, sys, importlib.util
here = os.path.dirname(os.path.abspath(__file__))
mdir = os.path.join(os.path.dirname(here), "mutants")
spec = importlib.util.spec_from_file_location("defs", os.path.join(mdir, "defs.py"))
defs = importlib.util.module_from_spec(spec); spec.loader.exec_module(defs)
repo = os.environ.get("REPO", "/repo")
only = set(sys.argv[1:])
bad = 0
for d in defs.MUTANTS:
    name, prop, expect, rule, edits = d["name"], d["property"], d["expect"], d.get("rule", ""), d["edits"]
    if only and name not in only:
        continue
    out = [f"# mutant: {name}", f"# property: {prop}", f"# expect: {expect}", f"# rule: {rule}", f"# what: {d.get('what','')}"]
    files = {}
    ok = True
    for (path, old, new) in edits:
        src = files.get(path)
        if src is None:
            src = open(os.path.join(repo, path)).read()
            files[path] = src
        if src.count(old) != 1:
            print(f"!! {name}: pattern matches {src.count(old)} times in {path}", file=sys.stderr)
            ok = False
            break
        files[path] = src.replace(old, new)
    if not ok:
        bad += 1
        continue
    body = []
    for path, new_src in files.items():
        orig = open(os.path.join(repo, path)).read()
        body += list(difflib.unified_diff(orig.splitlines(True), new_src.splitlines(True), "a/" + path, "b/" + path, n=3))
    open(os.path.join(mdir, name + ".diff"), "w").write("\n".join(out) + "\n" + "".join(body))
print("done, failures:", bad)
sys.exit(1 if bad else 0)
