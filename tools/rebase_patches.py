#!/usr/bin/env python3
"""Rebase corpus patches over a new 'fix:' commit in /repo.
usage: rebase_patches.py <old-commit> <new-commit> <patch>...
Each patch (a diff against <old-commit>) is applied to a scratch worktree at <old-commit>, committed, the
commits old..new are cherry-picked on top (three-way), and the patch is rewritten as the diff new..result.
Conflicts are reported and the patch is left untouched."""
import subprocess, sys, os, shutil
old, new, files = sys.argv[1], sys.argv[2], sys.argv[3:]
W = "/tmp/rebase-wt"
def sh(cmd, **kw):
    return subprocess.run(cmd, shell=True, cwd=kw.get("cwd", W), stdout=subprocess.PIPE, stderr=subprocess.STDOUT)
import re, glob
FUNC = open("/repo/websocket.go").read()
FUNC = FUNC[FUNC.index("// resetWriteDeadline bounds"):FUNC.index("func (c *wsConn) resetReadDeadline()")]
ENV = dict(os.environ, GOFLAGS="-mod=mod", GOPROXY="off", GOSUMDB="off", GOTOOLCHAIN="local"); ENV.pop("GOWORK", None)
def textual_fix():
    """the fix of 39ec50c re-done on a tree whose write sites were reshaped: a resetWriteDeadline() call
    in front of every statement that writes to the socket, plus the function itself"""
    n = 0
    for path in glob.glob(W + "/*.go"):
        if path.endswith("_test.go"): continue
        lines = open(path).read().split("\n")
        out = []
        for i, l in enumerate(lines):
            m = re.search(r"(\b[\w.]+?)\.conn\.(WriteMessage|WriteJSON|NextWriter|WritePreparedMessage)\(", l)
            if m and not l.strip().startswith("//"):
                prev = next((x for x in reversed(out) if x.strip()), "")
                if "resetWriteDeadline()" not in prev:
                    stripped = l.lstrip()
                    if not re.match(r"(if |return |[\w, ]+ :?= |[\w.]+\()", stripped):
                        return False, f"unexpected statement shape: {stripped[:60]}"
                    out.append(l[:len(l) - len(stripped)] + m.group(1) + ".resetWriteDeadline()")
                    n += 1
            out.append(l)
        open(path, "w").write("\n".join(out))
    ws = W + "/websocket.go"
    src = open(ws).read()
    if "func (c *wsConn) resetWriteDeadline()" not in "".join(open(g).read() for g in glob.glob(W + "/*.go")):
        anchor = "func (c *wsConn) resetReadDeadline()"
        if anchor in src:
            src = src.replace(anchor, FUNC + anchor)
        else:
            src += "\n" + FUNC
        open(ws, "w").write(src)
    r = subprocess.run("gofmt -w *.go ; go build ./... && go vet .", shell=True, cwd=W, env=ENV, stdout=subprocess.PIPE, stderr=subprocess.STDOUT)
    if r.returncode or r.stdout.strip():
        return False, r.stdout.decode()[-300:]
    return True, f"{n} call(s) inserted"
def textual_fix3():
    """the fix of ab34014 re-done on a reshaped tree: nil guard at the top of the stream constructor"""
    n = 0
    guard = ["\tif ctx == nil {", "\t\t// the method has no context parameter: the subscription lives as long as the connection", "\t\tctx = context.Background()", "\t}"]
    for path in glob.glob(W + "/*.go"):
        if path.endswith("_test.go"): continue
        lines = open(path).read().split("\n")
        out = []
        for l in lines:
            out.append(l)
            if re.match(r"^func .*\(ctx context\.Context, \w+ reflect\.Type.*\{$", l):
                out += guard
                n += 1
        open(path, "w").write("\n".join(out))
    r = subprocess.run("gofmt -w *.go ; go build ./... && go vet .", shell=True, cwd=W, env=ENV, stdout=subprocess.PIPE, stderr=subprocess.STDOUT)
    if r.returncode or r.stdout.strip():
        return False, r.stdout.decode()[-300:]
    if n != 1:
        return False, f"{n} stream constructors found"
    return True, "nil guard inserted"
def textual_fix2():
    """the fix of cdb4c59 re-done on a reshaped tree: plain hand-over sends become selects with the exit signal"""
    n = 0
    for path in glob.glob(W + "/*.go"):
        if path.endswith("_test.go"): continue
        lines = open(path).read().split("\n")
        out = []
        for l in lines:
            m = re.match(r"^(\s*)(\w+)\.(incoming|frameExecQueue|\w*[qQ]ueue\w*) <- (\w+)$", l)
            if m and m.group(3) in ("incoming", "frameExecQueue"):
                ind, recv, fld, val = m.groups()
                out += [f"{ind}select {{", f"{ind}case {recv}.{fld} <- {val}:", f"{ind}case <-{recv}.exiting:"]
                if fld == "frameExecQueue":
                    out += [f"{ind}\treturn"]
                out += [f"{ind}}}"]
                n += 1
                continue
            out.append(l)
        open(path, "w").write("\n".join(out))
    r = subprocess.run("gofmt -w *.go ; go build ./... && go vet .", shell=True, cwd=W, env=ENV, stdout=subprocess.PIPE, stderr=subprocess.STDOUT)
    if r.returncode or r.stdout.strip():
        return False, r.stdout.decode()[-300:]
    if n == 0:
        return False, "no plain hand-over found"
    return True, f"{n} hand-over(s) rewritten"
subprocess.run(f"git -C /repo worktree remove --force {W}", shell=True, stderr=subprocess.DEVNULL)
shutil.rmtree(W, ignore_errors=True)
subprocess.run(f"git -C /repo worktree add -q --detach {W} {old}", shell=True, check=True)
try:
    for f in files:
        sh(f"git cherry-pick --abort; git reset -q --hard {old}; git clean -fdq")
        head = open(f).read()
        hdr = "".join(l for l in head.split("\n", 20)[:20] if 0) # placeholder
        # keep leading comment lines of own mutants ('# expect: ...')
        lead = []
        for l in head.splitlines(True):
            if l.startswith("#"):
                lead.append(l)
            else:
                break
        r = sh(f"git apply {f}")
        if r.returncode:
            r = sh(f"patch -p1 -s < {f}")
            if r.returncode:
                print(f"{f}: DOES-NOT-APPLY-TO-OLD {r.stdout.decode()[-200:]}"); continue
        sh("git add -A && git -c user.name=x -c user.email=x@x commit -q -m mut")
        r = sh(f"git -c user.name=x -c user.email=x@x cherry-pick {old}..{new}")
        if r.returncode:
            sh("git cherry-pick --abort")
            ok, why = textual_fix() if new.startswith("39ec50c") else (textual_fix2() if new.startswith("cdb4c59") else textual_fix3())
            if not ok:
                print(f"{f}: CONFLICT, textual fix failed: {why}"); continue
            sh("git add -A && git -c user.name=x -c user.email=x@x commit -q -m fixup")
            d = sh(f"git diff {new} HEAD").stdout.decode()
            open(f, "w").write("".join(lead) + d)
            print(f"{f}: rebased (textual: {why})")
            continue
        d = sh(f"git diff {new} HEAD").stdout.decode()
        open(f, "w").write("".join(lead) + d)
        print(f"{f}: rebased")
finally:
    subprocess.run(f"git -C /repo worktree remove --force {W}", shell=True, stderr=subprocess.DEVNULL)
    shutil.rmtree(W, ignore_errors=True)
