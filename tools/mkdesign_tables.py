#!/usr/bin/env python3
"""Emit the generated parts of DESIGN.md: implemented rules per property (from the evidence
files written by the checks) and the seeded-mutation catch table (from seeded/*/caught.json)."""
import json, glob, os, re
out = []
out.append("### 5.A Rules as implemented (generated from the checks' own evidence files)\n")
for f in sorted(glob.glob("/verif/evidence/C*.json")):
    e = json.load(open(f))
    cov = e["coverage"]
    out.append(f"**{e['property_id']}** — {cov['obligations']} obligations on the current tree, {cov['discharged']} discharged.\n")
    for rid in sorted(cov["rules"], key=lambda x: [int(t) if t.isdigit() else t for t in re.split(r'(\d+)', x)]):
        n = sum(cov["per_rule"].get(rid, {}).values())
        out.append(f"* `{rid}` ({n}): {cov['rules'][rid]}")
    out.append(f"\n  *Not decided:* {cov.get('not_decided','')}\n")
open("/verif/tools/_rules.md", "w").write("\n".join(out))
rows = []
for d in sorted(glob.glob("/verif/seeded/*")):
    sid = os.path.basename(d)
    cj = os.path.join(d, "caught.json")
    notes = ""
    np = os.path.join(d, "notes.md")
    if os.path.exists(np):
        txt = open(np).read()
        m = re.search(r"^#+\s*(.+)$", txt, re.M)
        notes = (m.group(1) if m else txt.strip().split("\n")[0])[:110]
    if os.path.exists(cj):
        c = json.load(open(cj))
        own = [x for x in c["all_fired"] if x.startswith(sid.split("-")[0] + "/")]
        other = [x for x in c["all_fired"] if not x.startswith(sid.split("-")[0] + "/")]
        rows.append(f"| {sid} | {notes} | {', '.join(own) or '–'} | {', '.join(other) or '–'} |")
    else:
        rows.append(f"| {sid} | {notes} | **missed** | – |")
open("/verif/tools/_seeded.md", "w").write("| id | change (title of the sub-agent's notes) | caught by own property's rules | also fires |\n|---|---|---|---|\n" + "\n".join(rows) + "\n")
print(len(rows), "seeded rows")
