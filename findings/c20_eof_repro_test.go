package httpio

// Reproduction for finding F-C20-2 (property C20: "... followed by end-of-file
// that is reported consistently on every further read"). Copy into httpio/ of a
// scratch copy and run  go test -run TestVerifC20EOFIsSticky ./httpio
// Before the fix: for every non-empty payload the reads after the first EOF
// return "http: invalid Read on closed Body" (the first EOF raises the consumed
// signal, the upload handler returns, net/http closes the request body, and the
// wrapper asks the closed body again).

import (
	"context"
	"io"
	"net/http/httptest"
	"strings"
	"testing"
	"time"

	"github.com/gorilla/mux"

	"github.com/filecoin-project/go-jsonrpc"
)

type verifEOFProbe struct{}

func (h *verifEOFProbe) PastEOF(ctx context.Context, r io.Reader) (string, error) {
	if _, err := io.ReadAll(r); err != nil {
		return "", err
	}
	for i := 0; i < 3; i++ {
		time.Sleep(50 * time.Millisecond) // let the upload handler return
		var p [8]byte
		if n, err := r.Read(p[:]); n != 0 || err != io.EOF {
			if err == nil {
				return "no error", nil
			}
			return err.Error(), nil
		}
	}
	return "EOF", nil
}

func TestVerifC20EOFIsSticky(t *testing.T) {
	var client struct {
		PastEOF func(ctx context.Context, r io.Reader) (string, error)
	}
	readerHandler, readerServerOpt := ReaderParamDecoder()
	rpcServer := jsonrpc.NewServer(readerServerOpt)
	rpcServer.Register("EOFProbe", &verifEOFProbe{})
	m := mux.NewRouter()
	m.Handle("/rpc/v0", rpcServer)
	m.Handle("/rpc/streams/v0/push/{uuid}", readerHandler)
	testServ := httptest.NewServer(m)
	defer testServ.Close()
	re := ReaderParamEncoder("http://" + testServ.Listener.Addr().String() + "/rpc/streams/v0/push")
	closer, err := jsonrpc.NewMergeClient(context.Background(), "ws://"+testServ.Listener.Addr().String()+"/rpc/v0", "EOFProbe", []interface{}{&client}, nil, re)
	if err != nil {
		t.Fatal(err)
	}
	defer closer()
	for _, payload := range []string{"", "x", strings.Repeat("pooooootato", 1000)} {
		s, err := client.PastEOF(context.TODO(), strings.NewReader(payload))
		if err != nil {
			t.Fatal(err)
		}
		if s != "EOF" {
			t.Errorf("payload of %d bytes: a read after end-of-file returned %q, want io.EOF", len(payload), s)
		}
	}
}
