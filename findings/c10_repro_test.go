package jsonrpc

// Reproduction for findings F-C10-1 / F-C10-2 (property C10).
// Copy into a scratch copy of the repository root and run
//   go test -run TestVerifC10 .
// Before the fix commit the test binary dies with an index-out-of-range /
// unhashable-key panic raised on the frame executor goroutine.

import (
	"net/http/httptest"
	"strings"
	"testing"
	"time"

	"github.com/gorilla/websocket"
)

type verifC10Handler struct{}

func (verifC10Handler) Ping() int { return 7 }

func TestVerifC10MalformedBuiltins(t *testing.T) {
	rpcServer := NewServer()
	rpcServer.Register("H", verifC10Handler{})
	srv := httptest.NewServer(rpcServer)
	defer srv.Close()

	frames := []string{
		`{"jsonrpc":"2.0","method":"xrpc.cancel","params":[]}`,
		`{"jsonrpc":"2.0","method":"xrpc.cancel","params":null}`,
		`{"jsonrpc":"2.0","method":"xrpc.cancel","params":[[1]]}`,
		`{"jsonrpc":"2.0","method":"xrpc.cancel","params":[{"a":1}]}`,
		`{"jsonrpc":"2.0","method":"xrpc.ch.val","params":[]}`,
		`{"jsonrpc":"2.0","method":"xrpc.ch.val","params":[1]}`,
		`{"jsonrpc":"2.0","method":"xrpc.ch.close","params":[]}`,
	}
	for _, f := range frames {
		c, _, err := websocket.DefaultDialer.Dial("ws"+strings.TrimPrefix(srv.URL, "http"), nil)
		if err != nil {
			t.Fatal(err)
		}
		if err := c.WriteMessage(websocket.TextMessage, []byte(f)); err != nil {
			t.Fatal(err)
		}
		if err := c.WriteMessage(websocket.TextMessage, []byte(`{"jsonrpc":"2.0","id":1,"method":"H.Ping","params":[]}`)); err != nil {
			t.Fatal(err)
		}
		_ = c.SetReadDeadline(time.Now().Add(3 * time.Second))
		_, msg, err := c.ReadMessage()
		if err != nil {
			t.Fatalf("after %s: %v", f, err)
		}
		if !strings.Contains(string(msg), `"result":7`) {
			t.Fatalf("after %s: unexpected reply %s", f, msg)
		}
		c.Close()
	}
}
