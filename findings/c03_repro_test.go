package jsonrpc

// Reproduction for finding F-C03-1 (property C03). Copy into a scratch copy of
// the repository root and run  go test -run TestVerifC03 .
// A connection is cut in the middle of a response frame; a call issued in the
// redial window must fail fast (or be served after reconnection). Before the
// fix it is written to the dead socket, stays registered for ever and never
// returns although the client reconnects and later calls succeed.

import (
	"context"
	"io"
	"net"
	"net/http/httptest"
	"strings"
	"sync/atomic"
	"testing"
	"time"
)

type verifC03Handler struct{}

func (verifC03Handler) Big() string { return strings.Repeat("x", 400<<10) }
func (verifC03Handler) Ping() int   { return 7 }

func TestVerifC03MidFrameCut(t *testing.T) {
	rpcServer := NewServer()
	rpcServer.Register("H", verifC03Handler{})
	srv := httptest.NewServer(rpcServer)
	defer srv.Close()
	backend := strings.TrimPrefix(srv.URL, "http://")

	ln, err := net.Listen("tcp", "127.0.0.1:0")
	if err != nil {
		t.Fatal(err)
	}
	defer ln.Close()
	var nconn int32
	go func() {
		for {
			c, err := ln.Accept()
			if err != nil {
				return
			}
			first := atomic.AddInt32(&nconn, 1) == 1
			go func() {
				b, err := net.Dial("tcp", backend)
				if err != nil {
					c.Close()
					return
				}
				go func() { _, _ = io.Copy(b, c); b.Close() }()
				if first {
					// handshake + part of the big frame, then cut
					_, _ = io.CopyN(c, b, 100<<10)
					c.Close()
					b.Close()
					return
				}
				_, _ = io.Copy(c, b)
				c.Close()
			}()
		}
	}()

	var cl struct {
		Big  func() (string, error)
		Ping func() (int, error)
	}
	closer, err := NewMergeClient(context.Background(), "ws://"+ln.Addr().String(), "H", []interface{}{&cl}, nil,
		WithReconnectBackoff(time.Second, time.Second))
	if err != nil {
		t.Fatal(err)
	}
	defer closer()

	if _, err := cl.Big(); err == nil {
		t.Fatal("expected the cut call to fail")
	}
	// we are now inside the redial window (>= 1s)
	done := make(chan error, 1)
	go func() { _, err := cl.Ping(); done <- err }()

	// wait for the reconnect and prove the link is healthy again
	deadline := time.Now().Add(10 * time.Second)
	for {
		time.Sleep(300 * time.Millisecond)
		if v, err := cl.Ping(); err == nil && v == 7 {
			break
		}
		if time.Now().After(deadline) {
			t.Fatal("client did not reconnect")
		}
	}
	select {
	case <-done:
	case <-time.After(3 * time.Second):
		t.Fatal("call issued in the redial window is still blocked although the link is healthy again")
	}
}
