package jsonrpc

// Reproduction for finding F-C01-1 (property C01). Copy into a scratch copy of the repository root
// and run  go test -run TestVerifC01ChanWithoutContext .
// A client function that returns a channel but takes no context ("optional leading context") makes
// the generated function dereference a nil context: the caller's goroutine panics.

import (
	"context"
	"net/http/httptest"
	"strings"
	"testing"
	"time"
)

type verifNilCtxHandler struct{}

func (verifNilCtxHandler) Sub(ctx context.Context, n int) (<-chan int, error) {
	out := make(chan int)
	go func() {
		defer close(out)
		for i := 0; i < n; i++ {
			select {
			case out <- i:
			case <-ctx.Done():
				return
			}
		}
	}()
	return out, nil
}

func TestVerifC01ChanWithoutContext(t *testing.T) {
	rpcServer := NewServer()
	rpcServer.Register("H", verifNilCtxHandler{})
	srv := httptest.NewServer(rpcServer)
	defer srv.Close()

	var client struct {
		Sub func(n int) (<-chan int, error) // no context parameter
	}
	closer, err := NewMergeClient(context.Background(), "ws"+strings.TrimPrefix(srv.URL, "http"), "H", []interface{}{&client}, nil)
	if err != nil {
		t.Fatal(err)
	}
	defer closer()

	var ch <-chan int
	func() {
		defer func() {
			if r := recover(); r != nil {
				t.Fatalf("calling a channel-returning function without a context parameter panicked: %v", r)
			}
		}()
		ch, err = client.Sub(3)
	}()
	if err != nil {
		t.Fatal(err)
	}
	got := 0
	timeout := time.After(10 * time.Second)
	for {
		select {
		case _, ok := <-ch:
			if !ok {
				if got != 3 {
					t.Fatalf("got %d values, want 3", got)
				}
				return
			}
			got++
		case <-timeout:
			t.Fatal("stream did not finish")
		}
	}
}
