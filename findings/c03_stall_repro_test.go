package jsonrpc

// Reproduction for finding F-C03-2 (properties C03 / C17 / C18). Copy into a scratch copy of
// the repository root and run  go test -run TestVerifC03Stall .
// The peer falls silent (a proxy stops forwarding but keeps both sockets open) while the
// client writes a request that is larger than the socket buffers. The connection loop performs
// the write itself, no write deadline is ever set, and nothing else can close the socket:
// the call never returns, the dead-peer timeout never fires, and the closer blocks as well.

import (
	"context"
	"io"
	"net"
	"net/http/httptest"
	"strings"
	"sync"
	"sync/atomic"
	"testing"
	"time"
)

type verifStallHandler struct{}

func (verifStallHandler) Len(s string) int { return len(s) }

type stallProxy struct {
	stalled atomic.Bool
	armed   atomic.Bool
	fwd     atomic.Int64
	mu      sync.Mutex
	conns   []net.Conn
}

// copy until stalled; once stalled, stop reading (the peer's kernel keeps acknowledging
// with a closing window, nothing is ever closed or reset)
func (p *stallProxy) pipe(dst, src net.Conn) {
	buf := make([]byte, 32<<10)
	for {
		if p.stalled.Load() {
			select {}
		}
		n, err := src.Read(buf)
		if p.stalled.Load() {
			select {}
		}
		if n > 0 && p.armed.Load() && p.fwd.Add(int64(n)) > 1<<20 {
			p.stalled.Store(true) // falls silent after 1 MiB of the big request, nothing is closed
			select {}
		}
		if n > 0 {
			if _, werr := dst.Write(buf[:n]); werr != nil {
				return
			}
		}
		if err != nil {
			if err == io.EOF {
				dst.Close()
			}
			return
		}
	}
}

func TestVerifC03StallDuringRequestWrite(t *testing.T) {
	rpcServer := NewServer(WithMaxRequestSize(1 << 30))
	rpcServer.Register("H", verifStallHandler{})
	srv := httptest.NewServer(rpcServer)
	defer srv.Close()
	backend := strings.TrimPrefix(srv.URL, "http://")

	ln, err := net.Listen("tcp", "127.0.0.1:0")
	if err != nil {
		t.Fatal(err)
	}
	defer ln.Close()
	p := &stallProxy{}
	go func() {
		for {
			c, err := ln.Accept()
			if err != nil {
				return
			}
			b, err := net.Dial("tcp", backend)
			if err != nil {
				c.Close()
				continue
			}
			go p.pipe(b, c)
			go p.pipe(c, b)
		}
	}()

	var client struct {
		Len func(ctx context.Context, s string) (int, error)
	}
	closer, err := NewMergeClient(context.Background(), "ws://"+ln.Addr().String(), "H", []interface{}{&client}, nil,
		WithTimeout(5*time.Second), WithPingInterval(time.Second), WithNoReconnect())
	if err != nil {
		t.Fatal(err)
	}

	if n, err := client.Len(context.Background(), "abc"); err != nil || n != 3 {
		t.Fatalf("warm-up call: %d %v", n, err)
	}

	p.armed.Store(true)

	big := strings.Repeat("x", 64<<20)
	done := make(chan error, 1)
	go func() {
		_, err := client.Len(context.Background(), big)
		done <- err
	}()
	for i := 0; i < 600 && !p.stalled.Load(); i++ {
		select {
		case err := <-done:
			t.Skipf("machine too loaded, the link timed out before the request was written: %v", err)
		case <-time.After(100 * time.Millisecond):
		}
	}
	if !p.stalled.Load() {
		t.Fatal("request never reached the proxy")
	}

	// configured timeout is 5 s; allow a very generous multiple of it
	select {
	case err := <-done:
		if err == nil {
			t.Fatal("call succeeded through a stalled link?")
		}
		t.Logf("call failed as it should: %v", err)
	case <-time.After(40 * time.Second):
		t.Errorf("call still blocked 40 s after the peer fell silent (timeout 5 s)")
	}

	closed := make(chan struct{})
	go func() { closer(); close(closed) }()
	select {
	case <-closed:
	case <-time.After(10 * time.Second):
		t.Errorf("closer still blocked after 10 s")
	}
}
