package jsonrpc

// Reproduction for finding F-C15-2 (property C15). Copy into a scratch copy of the repository
// root and run  go test -run TestVerifC15ReaderLeak .
// The server ends connections by cancelling their context while the clients keep sending frames.
// The socket reader goroutine hands every frame header to the connection loop with a bare send on
// an unbuffered channel; when the loop exits at the instant a frame has arrived, nobody receives
// any more and the reader goroutine (with the connection it holds) is retained for ever.

import (
	"context"
	"net/http"
	"net/http/httptest"
	"runtime"
	"strings"
	"sync"
	"testing"
	"time"
)

type verifLeakHandler struct{}

func (verifLeakHandler) Nop(int) {}

func stuckReaders() int {
	buf := make([]byte, 16<<20)
	buf = buf[:runtime.Stack(buf, true)]
	n := 0
	for _, g := range strings.Split(string(buf), "\n\n") {
		if strings.Contains(g, "[chan send") && (strings.Contains(g, "(*wsConn).nextMessage") || strings.Contains(g, "(*wsConn).readFrame")) {
			n++
		}
	}
	return n
}

func TestVerifC15ReaderLeakOnServerSideCancel(t *testing.T) {
	rpcServer := NewServer()
	rpcServer.Register("H", verifLeakHandler{})
	srvCtx, cancelAll := context.WithCancel(context.Background())
	srv := httptest.NewServer(http.HandlerFunc(func(w http.ResponseWriter, r *http.Request) {
		ctx, cancel := context.WithCancel(r.Context())
		defer cancel()
		go func() {
			select {
			case <-srvCtx.Done():
				cancel()
			case <-ctx.Done():
			}
		}()
		rpcServer.ServeHTTP(w, r.WithContext(ctx))
	}))
	defer srv.Close()

	const conns = 24
	var wg sync.WaitGroup
	stopFlood := make(chan struct{})
	for i := 0; i < conns; i++ {
		var client struct {
			Nop func(int) `notify:"true"`
		}
		closer, err := NewMergeClient(context.Background(), "ws"+strings.TrimPrefix(srv.URL, "http"), "H", []interface{}{&client}, nil, WithNoReconnect())
		if err != nil {
			t.Fatal(err)
		}
		defer closer()
		wg.Add(1)
		go func() {
			defer wg.Done()
			for {
				select {
				case <-stopFlood:
					return
				default:
				}
				client.Nop(1)
			}
		}()
	}
	time.Sleep(500 * time.Millisecond)
	cancelAll() // the server shuts its connections down while frames keep arriving
	time.Sleep(500 * time.Millisecond)
	close(stopFlood)
	wg.Wait()
	// the connections are gone; give every goroutine ample time to notice
	deadline := time.Now().Add(10 * time.Second)
	n := stuckReaders()
	for n > 0 && time.Now().Before(deadline) {
		time.Sleep(200 * time.Millisecond)
		n = stuckReaders()
	}
	if n > 0 {
		t.Errorf("%d socket-reader goroutine(s) of dead connections are parked for ever on a channel send", n)
	}
}
