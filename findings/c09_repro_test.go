package jsonrpc

// Reproduction for finding F-C09-1 (property C09). Copy into a scratch copy of
// the repository root and run  go test -run TestVerifC09 .
// Batches containing notifications or an element with an invalid id must
// still yield one well-formed JSON array (or nothing for all-notification
// batches). Before the fix: "[,{…}]", "[{…},]", "[]" and an unterminated "[{…}".

import (
	"encoding/json"
	"io"
	"net/http"
	"net/http/httptest"
	"strings"
	"testing"
)

type verifC09Handler struct{}

func (verifC09Handler) Ping() int { return 7 }

func TestVerifC09BatchFraming(t *testing.T) {
	rpcServer := NewServer()
	rpcServer.Register("H", verifC09Handler{})
	srv := httptest.NewServer(rpcServer)
	defer srv.Close()

	call := func(id string) string { return `{"jsonrpc":"2.0","id":` + id + `,"method":"H.Ping","params":[]}` }
	notif := `{"jsonrpc":"2.0","method":"H.Ping","params":[]}`
	cases := []struct {
		body string
		n    int // expected number of response objects; -1 = empty reply
	}{
		{"[" + notif + "," + call("1") + "]", 1},
		{"[" + call("1") + "," + notif + "]", 1},
		{"[" + notif + "," + call("1") + "," + notif + "," + call("2") + "," + notif + "]", 2},
		{"[" + notif + "," + notif + "]", -1},
		{"[" + call("1") + "," + call("true") + "," + call("3") + "]", 3},
		{"[" + call("{}") + "]", 1},
	}
	for _, c := range cases {
		res, err := http.Post(srv.URL, "application/json", strings.NewReader(c.body))
		if err != nil {
			t.Fatal(err)
		}
		b, _ := io.ReadAll(res.Body)
		res.Body.Close()
		if c.n == -1 {
			if len(strings.TrimSpace(string(b))) != 0 {
				t.Errorf("%s: expected empty reply, got %q", c.body, b)
			}
			continue
		}
		var arr []map[string]interface{}
		if err := json.Unmarshal(b, &arr); err != nil {
			t.Errorf("%s: reply is not a JSON array: %q (%v)", c.body, b, err)
			continue
		}
		if len(arr) != c.n {
			t.Errorf("%s: %d response objects, want %d: %s", c.body, len(arr), c.n, b)
		}
	}
}
