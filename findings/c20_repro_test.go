package httpio

// Reproduction for finding F-C20-1 (property C20). Copy into httpio/ of a
// scratch copy and run  go test -run TestVerifC20 ./httpio
// Before the fix: "panic: close of closed channel".

import (
	"io"
	"strings"
	"testing"
)

func TestVerifC20ReadPastEOFAndClose(t *testing.T) {
	w := &waitReadCloser{ReadCloser: io.NopCloser(strings.NewReader("ab")), wait: make(chan struct{})}
	b, err := io.ReadAll(w)
	if err != nil || string(b) != "ab" {
		t.Fatal(b, err)
	}
	buf := make([]byte, 4)
	for i := 0; i < 3; i++ {
		if n, err := w.Read(buf); n != 0 || err != io.EOF {
			t.Fatalf("read past EOF: %d %v", n, err)
		}
	}
	if err := w.Close(); err != nil {
		t.Fatal(err)
	}
	if err := w.Close(); err != nil {
		t.Fatal(err)
	}
	<-w.wait
}
