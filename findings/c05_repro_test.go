package jsonrpc

import (
	"testing"
	"time"
)

// Reproduction for finding F-C05-1 (property C05): after ~63 failed attempts the
// float delay overflows int64 when converted to time.Duration; on amd64 the
// result is negative, `delay > maxDelay` is false, and next() returns a negative
// duration: time.Sleep returns at once and the redial loop becomes a busy loop.
func TestVerifC05BackoffOverflow(t *testing.T) {
	b := backoff{minDelay: 100 * time.Millisecond, maxDelay: 5 * time.Second}
	for attempt := 0; attempt < 400; attempt++ {
		d := b.next(attempt)
		if d < b.minDelay || d > b.maxDelay {
			t.Fatalf("attempt %d: delay %v outside [%v, %v]", attempt, d, b.minDelay, b.maxDelay)
		}
	}
}
