package jsonrpc

// Reproduction for finding F-C15-1 (property C15). Copy into a scratch copy of
// the repository root and run  go test -run TestVerifC15 .
// Handlers that finish after their connection died must not leave goroutines
// behind. Before the fix every response after the first failed write parks its
// handler goroutine for ever in lazyWriter.Write.

import (
	"fmt"
	"net/http/httptest"
	"runtime"
	"strings"
	"testing"
	"time"

	"github.com/gorilla/websocket"
)

type verifC15Handler struct{ release chan struct{} }

func (h *verifC15Handler) Wait() string { <-h.release; return strings.Repeat("y", 64<<10) }

func TestVerifC15LateResponsesDoNotLeak(t *testing.T) {
	h := &verifC15Handler{release: make(chan struct{})}
	rpcServer := NewServer()
	rpcServer.Register("H", h)
	srv := httptest.NewServer(rpcServer)
	defer srv.Close()

	for k := 0; k < 3; k++ {
		c, _, err := websocket.DefaultDialer.Dial("ws"+strings.TrimPrefix(srv.URL, "http"), nil)
		if err != nil {
			t.Fatal(err)
		}
		for i := 1; i <= 3; i++ {
			if err := c.WriteMessage(websocket.TextMessage, []byte(fmt.Sprintf(`{"jsonrpc":"2.0","id":%d,"method":"H.Wait","params":[]}`, i))); err != nil {
				t.Fatal(err)
			}
		}
		time.Sleep(100 * time.Millisecond)
		c.UnderlyingConn().Close() // abrupt end
	}
	time.Sleep(300 * time.Millisecond) // let the server notice
	close(h.release)                   // handlers finish now and try to respond
	time.Sleep(time.Second)

	buf := make([]byte, 1<<22)
	buf = buf[:runtime.Stack(buf, true)]
	n := strings.Count(string(buf), "lazyWriter).Write(")
	if n != 0 {
		t.Fatalf("%d goroutines parked in lazyWriter.Write after their connection ended", n)
	}
}
